#!/venv/bin/python
"""Runs the repository's pinned baseline with the hook guard OFF and checks that the 51
stable tests of /root/.vp/BASELINE.json all pass.   usage: baseline_check.py [junit.xml]"""
import json
import os
import subprocess
import sys
import xml.etree.ElementTree as ET

base = json.load(open("/root/.vp/BASELINE.json"))
xml = sys.argv[1] if len(sys.argv) > 1 else None
if xml is None:
    xml = "/tmp/jv_baseline.xml"
    env = {k: v for k, v in os.environ.items() if k != "JINNS_VERIF"}
    subprocess.run(["/venv/bin/python", "-m", "pytest", "-ra", "-q", "-p", "no:cacheprovider",
                    "--timeout=900", "--continue-on-collection-errors", "--junitxml=" + xml],
                   cwd="/repo", env=env, stdout=subprocess.DEVNULL, stderr=subprocess.DEVNULL)
passed = set()
for tc in ET.parse(xml).getroot().iter("testcase"):
    ok = not any(ch.tag in ("failure", "error", "skipped") for ch in tc)
    if ok:
        passed.add("%s::%s" % (tc.get("classname"), tc.get("name")))
missing = [t for t in base["stable_pass"] if t not in passed]
print("stable tests passing: %d/%d" % (len(base["stable_pass"]) - len(missing), len(base["stable_pass"])))
for m in missing:
    print("  NOT PASSING:", m)
sys.exit(1 if missing else 0)
