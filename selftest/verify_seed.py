#!/venv/bin/python
"""Confirms a seeded change independently of its author, in a scratch git worktree of /repo
(outside /repo and /verif, removed afterwards):
  * patch.diff applies to the current /repo HEAD,
  * the repository's 51 stable tests still pass with it (guard off),
  * demo.py fails with the change and passes without it.
usage: verify_seed.py <dir with patch.diff and demo.py>   -> prints a JSON summary
"""
import json
import os
import subprocess
import sys
import tempfile
import xml.etree.ElementTree as ET


def main():
    sd = os.path.abspath(sys.argv[1])
    wt = tempfile.mkdtemp(prefix="jinns_verify_", dir="/tmp")
    os.rmdir(wt)
    out = {"dir": sd}
    subprocess.run(["git", "-C", "/repo", "worktree", "add", "-q", "--detach", wt, "HEAD"], check=True)
    try:
        env = {k: v for k, v in os.environ.items() if k != "JINNS_VERIF"}
        env.update(PYTHONPATH=wt, JAX_PLATFORMS="cpu", PYTHONDONTWRITEBYTECODE="1")
        demo = os.path.join(sd, "demo.py")
        r0 = subprocess.run(["/venv/bin/python", demo], cwd=wt, env=env, capture_output=True, text=True, timeout=1800)
        out["demo_unchanged_exit"] = r0.returncode
        p = subprocess.run(["git", "-C", wt, "apply", os.path.join(sd, "patch.diff")], capture_output=True, text=True)
        out["patch_applies"] = p.returncode == 0
        if p.returncode:
            out["patch_error"] = p.stderr[-300:]
            print(json.dumps(out, indent=1))
            return 1
        r1 = subprocess.run(["/venv/bin/python", demo], cwd=wt, env=env, capture_output=True, text=True, timeout=1800)
        out["demo_changed_exit"] = r1.returncode
        out["demo_changed_tail"] = (r1.stdout + r1.stderr)[-300:]
        xml = os.path.join(wt, "_junit.xml")
        subprocess.run(["/venv/bin/python", "-m", "pytest", "-q", "-p", "no:cacheprovider", "--timeout=900",
                        "--continue-on-collection-errors", "--junitxml=" + xml], cwd=wt, env=env,
                       stdout=subprocess.DEVNULL, stderr=subprocess.DEVNULL)
        base = json.load(open("/root/.vp/BASELINE.json"))
        passed = set()
        for tc in ET.parse(xml).getroot().iter("testcase"):
            if not any(ch.tag in ("failure", "error", "skipped") for ch in tc):
                passed.add("%s::%s" % (tc.get("classname"), tc.get("name")))
        missing = [t for t in base["stable_pass"] if t not in passed]
        out["stable_tests_passing_with_change"] = "%d/%d" % (len(base["stable_pass"]) - len(missing), len(base["stable_pass"]))
        out["stable_tests_broken"] = missing
        out["confirmed"] = bool(out["demo_unchanged_exit"] == 0 and out["demo_changed_exit"] != 0 and not missing)
    finally:
        subprocess.run(["git", "-C", "/repo", "worktree", "remove", "--force", wt])
        subprocess.run(["git", "-C", "/repo", "worktree", "prune"])
    print(json.dumps(out, indent=1))
    return 0 if out.get("confirmed") else 1


if __name__ == "__main__":
    sys.exit(main())
