#!/venv/bin/python
"""make_meta.py <seeded dir> <property> "<needs>" "<also_run comma list>" [verify.json]  -> writes meta.json"""
import json, os, sys
sd, prop, needs, also = sys.argv[1:5]
ver = json.load(open(sys.argv[5])) if len(sys.argv) > 5 and os.path.exists(sys.argv[5]) else {}
meta = {
    "property": prop,
    "origin": "written by an independent sub-agent that was given only the property record and a scratch git worktree of /repo (nothing from /verif)",
    "needs_to_manifest": needs,
    "also_run": [c for c in also.split(",") if c],
    "confirmed_by_me": {
        "how": "selftest/verify_seed.py: fresh git worktree of /repo HEAD under /tmp; demo.py on the unchanged tree, git apply patch.diff, demo.py again, then the repository's full pytest command with the guard off compared with the 51 stable tests of BASELINE.json; worktree removed",
        "patch_applies": ver.get("patch_applies"),
        "demo_exit_unchanged_tree": ver.get("demo_unchanged_exit"),
        "demo_exit_with_change": ver.get("demo_changed_exit"),
        "stable_tests_passing_with_change": ver.get("stable_tests_passing_with_change"),
        "confirmed": ver.get("confirmed"),
    },
    "checks_run_against_it": "selftest/run_seeded.py (scratch copy of /repo with the patch, JINNS_VERIF_REPO pointing at it); see seeded/RESULTS.md",
}
json.dump(meta, open(os.path.join(sd, "meta.json"), "w"), indent=1)
print("wrote", os.path.join(sd, "meta.json"), meta["confirmed_by_me"]["confirmed"])
