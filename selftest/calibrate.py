#!/venv/bin/python
"""calibrate.py <tier> <evidence dirs...> : for each check, min over the given runs of every counter named in
MIN_COUNTERS[tier], next to the current threshold (thresholds should sit well below the minimum observed)."""
import glob, importlib, json, os, sys
sys.path[:0] = ["/verif/.deps", "/verif"]
tier = sys.argv[1]
dirs = sys.argv[2:]
for i in range(1, 21):
    p = "C%02d" % i
    os.environ.setdefault("JV_X64", "1")
    try:
        src = open("/verif/jv/checks/%s.py" % p.lower()).read()
    except OSError:
        continue
    # evaluate MIN_COUNTERS without importing jax-heavy modules
    ns = {}
    start = src.index("MIN_COUNTERS")
    pre = src[:start]
    exec("\n".join(l for l in pre.splitlines() if l.startswith("_DOM") or l.startswith("        \"dominant") ) if "_DOM" in pre else "", ns)
    try:
        exec(src[start:src.index("\n\n", start)], ns)
    except Exception as e:
        print(p, "cannot parse MIN_COUNTERS", e); continue
    mc = ns["MIN_COUNTERS"].get(tier, {})
    obs = {}
    for d in dirs:
        f = os.path.join(d, p + ".json")
        if not os.path.exists(f):
            continue
        ev = json.load(open(f))
        if ev["tier"] != tier:
            continue
        for k in mc:
            obs.setdefault(k, []).append(ev["coverage"]["counters"].get(k, 0))
    tight = {k: (min(v), mc[k]) for k, v in obs.items() if v and min(v) < 1.6 * mc[k]}
    print(p, "runs=%d" % max([len(v) for v in obs.values()] or [0]), "TIGHT (min observed, threshold):" if tight else "ok", tight or "")
