#!/venv/bin/python
"""Run checks against a mutated scratch copy of /repo (outside /repo and /verif).

usage:
  mutant.py --patch file.diff  C04 [C11 ...]        apply a unified diff (git apply)
  mutant.py --sub FILE 'old' 'new' C01              replace one exact occurrence of a string
  mutant.py --revert <commit>  C04                  revert one repository commit (e.g. a fix:)
options: --tier quick|thorough  --seed N  --keep
Prints each check's exit code; the scratch copy is removed afterwards.
"""
import os
import shutil
import subprocess
import sys
import tempfile

VERIF = os.path.dirname(os.path.dirname(os.path.abspath(__file__)))


def main():
    a = sys.argv[1:]
    tier, seed, keep = "quick", "0", False
    mode = None
    margs = []
    props = []
    i = 0
    while i < len(a):
        if a[i] == "--tier":
            tier = a[i + 1]; i += 2
        elif a[i] == "--seed":
            seed = a[i + 1]; i += 2
        elif a[i] == "--keep":
            keep = True; i += 1
        elif a[i] == "--patch":
            mode, margs = "patch", [a[i + 1]]; i += 2
        elif a[i] == "--sub":
            mode, margs = "sub", a[i + 1:i + 4]; i += 4
        elif a[i] == "--revert":
            mode, margs = "revert", [a[i + 1]]; i += 2
        else:
            props.append(a[i]); i += 1
    scratch = tempfile.mkdtemp(prefix="jinns_mut_", dir="/tmp")
    rc_all = {}
    try:
        subprocess.run(["rsync", "-a", "--exclude", ".git", "--exclude", "Notebooks",
                        "--exclude", "docs", "--exclude", "__pycache__", "/repo/", scratch + "/"],
                       check=True)
        if mode == "patch":
            subprocess.run(["git", "apply", "--unsafe-paths", "--directory", scratch,
                            os.path.abspath(margs[0])], check=True, cwd="/")
        elif mode == "sub":
            path = os.path.join(scratch, margs[0])
            s = open(path).read()
            if s.count(margs[1]) < 1:
                print("pattern not found in", margs[0]); return 3
            s = s.replace(margs[1], margs[2], 1)
            open(path, "w").write(s)
        elif mode == "revert":
            diff = subprocess.run(["git", "-C", "/repo", "show", "--format=", margs[0]],
                                  check=True, capture_output=True, text=True).stdout
            p = subprocess.run(["git", "apply", "-R", "--unsafe-paths", "--directory", scratch, "-"],
                               input=diff, text=True, cwd="/")
            if p.returncode:
                return 3
        env = dict(os.environ, JINNS_VERIF_REPO=scratch, VERIF_SEED=seed)
        env["JV_EVIDENCE_DIR"] = os.path.join(scratch, "_evidence")
        env["JV_REPLAY_DIR"] = os.path.join(scratch, "_replays")
        for p in props:
            r = subprocess.run([os.path.join(VERIF, "check"), p, "--tier", tier, "--seed", seed],
                               env=env, capture_output=True, text=True)
            tail = [l for l in r.stdout.splitlines() if l.startswith(("VIOLATION", "  signature", "INCONCLUSIVE", "KNOWN", p))]
            print("== %s exit=%d" % (p, r.returncode))
            print("\n".join(tail[:14]))
            rc_all[p] = r.returncode
    finally:
        if keep:
            print("kept", scratch)
        else:
            shutil.rmtree(scratch, ignore_errors=True)
    return 0


if __name__ == "__main__":
    sys.exit(main())
