#!/bin/sh
# usage: sweep.sh <tier> "<seeds>" [props...]   e.g. sweep.sh quick "0 1 2 3 7"
# Runs the checks on the unchanged tree for several VERIF_SEED values from fresh processes.
# Evidence of sweep runs goes to a scratch directory (the committed evidence is not touched).
cd "$(dirname "$0")/.." || exit 2
tier=$1; seeds=$2; shift 2
props=${*:-C01 C02 C03 C04 C05 C06 C07 C08 C09 C10 C11 C12 C13 C14 C15 C16 C17 C18 C19 C20}
out=$(mktemp -d /tmp/jv_sweep_XXXX)
bad=0
for s in $seeds; do
  for p in $props; do
    JV_EVIDENCE_DIR=$out/ev_$s JV_REPLAY_DIR=$out/rp_$s VERIF_SEED=$s ./check $p --tier $tier > $out/$p.$s.log 2>&1
    rc=$?
    echo "seed=$s $p rc=$rc $(tail -1 $out/$p.$s.log | cut -c1-150)"
    if [ $rc -ne 0 ]; then bad=1; grep -E "^(VIOLATION|  signature|INCONCLUSIVE)" $out/$p.$s.log | cut -c1-400 | head -8; fi
  done
done
echo "sweep done bad=$bad logs=$out"
exit $bad
