"""Small deterministic reference models the recorded histories are checked against."""
import math

import numpy as np


class EpochChecker:
    """Online, purely observational checker of one stream of mini-batches (DESIGN A.2).

    store: the initial store as a list of hashable row keys, pairwise distinct.
    feed(batch_keys, store_keys_after) for every get_batch call.
    Epochs are detected from the batches alone: an epoch ends with the first batch after
    which every stored point has been served since the epoch began.
      b | n : no point is served twice inside an epoch
      b !| n: an epoch has exactly ceil(n/b) batches (all points served, minimal cover)
    plus: store multiset never changes; batches hold stored rows only, no duplicates inside
    one batch; over >= 4 epochs with n >= 6 the serving order changes at least once.
    """

    def __init__(self, store_keys, b, name, full_store=None):
        # full_store: every stored row, when only a subset (store_keys) is usable and served (a generator configured
        # for refinement holds inactive pre-allocated slots)
        self.full = list(full_store) if full_store is not None else None
        self.S = list(store_keys)
        self.Sset = set(self.S)
        self.n = len(self.S)
        self.b = b
        self.g = math.ceil(self.n / b)
        self.name = name
        self.cur = []  # batches of the running epoch
        self.served = {}
        self.epochs = []  # serving order of completed epochs (tuple of keys)
        self.problems = []
        self.nb = 0
        self.distinct = len(self.Sset) == self.n

    def _p(self, sig, what):
        if len(self.problems) < 5:
            self.problems.append((sig, "%s: %s" % (self.name, what)))

    def feed(self, batch_keys, store_after):
        self.nb += 1
        if sorted(store_after) != sorted(self.full if self.full is not None else self.S):
            self._p("store-multiset-changed", "stored points changed after get_batch #%d" % self.nb)
        if len(batch_keys) != self.b:
            self._p("batch-size", "batch #%d has %d rows, expected %d" % (self.nb, len(batch_keys), self.b))
        if any(k not in self.Sset for k in batch_keys):
            self._p("foreign-point", "batch #%d holds a row that is not in the store" % self.nb)
            return
        if len(set(batch_keys)) != len(batch_keys):
            self._p("duplicate-in-batch", "batch #%d serves the same point twice" % self.nb)
        self.cur.append(list(batch_keys))
        for k in batch_keys:
            self.served[k] = self.served.get(k, 0) + 1
        if self.n % self.b == 0:
            if any(v > 1 for v in self.served.values()):
                self._p("divisible/point-served-twice",
                        "n=%d b=%d: a point is served twice before all points were served "
                        "(batch #%d, %d batches into the epoch)" % (self.n, self.b, self.nb, len(self.cur)))
                # resynchronise: start a new epoch with this batch
                self.cur = [list(batch_keys)]
                self.served = {k: 1 for k in batch_keys}
        if len(self.served) == self.n:
            if self.n % self.b != 0 and len(self.cur) != self.g:
                self._p("nondivisible/cover-not-minimal",
                        "n=%d b=%d: %d batches were needed to serve every point, expected %d"
                        % (self.n, self.b, len(self.cur), self.g))
            self.epochs.append(tuple(k for bt in self.cur for k in bt))
            self.cur, self.served = [], {}
        elif len(self.cur) > self.g:
            self._p("nondivisible/point-not-served" if self.n % self.b else "divisible/point-not-served",
                    "n=%d b=%d: after %d batches %d points are still unserved"
                    % (self.n, self.b, len(self.cur), self.n - len(self.served)))
            self.cur, self.served = [], {}

    def finish(self):
        if self.n >= 6 and len(self.epochs) >= 4:
            same = sum(1 for a, b in zip(self.epochs, self.epochs[1:]) if a == b)
            if same >= 2:
                self._p("epoch-order-repeated",
                        "n=%d b=%d: %d of %d consecutive epoch pairs were served in exactly the same "
                        "order (no reshuffle happened when all points had been served)"
                        % (self.n, self.b, same, len(self.epochs) - 1))
        return self.problems
