"""Harness-side description of a "network": an analytic field wrapped in the real PINN,
optionally reading equation parameters through input/output transforms, together with its
numpy twin (value / gradient / Hessian w.r.t. the inputs for given equation parameters).

  input transform : z -> z + phi * e_last        (reads eq_params["phi"]  when 'phi' in reads)
  output transform: out -> out * theta           (reads eq_params["theta"] when 'theta' in reads)

The transforms reduce the parameter with jnp.sum so that a parameter row of shape (1,), a
0-d value and a python float all work; a whole column passed by mistake changes the value
(observable) instead of raising inside the harness.
"""
import numpy as np

from . import fields


def _scal(v):
    return float(np.sum(np.asarray(v, dtype=np.float64)))


class Net:
    def __init__(self, field, eq_type, reads=(), slice_solution=None, output_slice=None):
        self.f = field
        self.eq_type = eq_type
        self.reads = tuple(reads)
        self.slice_solution = slice_solution
        self.output_slice = output_slice
        self.D = field.D
        self.n_out = field.n_out

    # ---------------------------------------------------------------- real jinns object
    def pinn(self):
        import jax.numpy as jnp

        reads = self.reads

        def in_tr(inputs, params):
            if "phi" in reads:
                return inputs.at[-1].add(jnp.sum(params.eq_params["phi"]))
            return inputs

        def out_tr(inputs, out, params):
            if "theta" in reads:
                return out * jnp.sum(params.eq_params["theta"])
            return out

        return fields.make_pinn(self.f.module(), self.eq_type, self.n_out,
                                slice_solution=self.slice_solution,
                                input_transform=in_tr, output_transform=out_tr,
                                output_slice=self.output_slice)

    def nn_params(self):
        return self.f.leaves()

    # ---------------------------------------------------------------- numpy twin
    def _z(self, z, eq):
        z = np.array(z, dtype=np.float64)
        if "phi" in self.reads:
            z[-1] += _scal(eq["phi"])
        return z

    def _s(self, eq):
        return _scal(eq["theta"]) if "theta" in self.reads else 1.0

    def val(self, z, eq=None):
        v = self.f.val(self._z(z, eq)) * self._s(eq)
        return v

    def grad(self, z, eq=None):
        return self.f.grad(self._z(z, eq)) * self._s(eq)

    def hess(self, z, eq=None):
        return self.f.hess(self._z(z, eq)) * self._s(eq)

    # derivatives with respect to the equation parameters (for C06's non-vacuity only)


class SNet:
    """separable analytic field wrapped in the real SPINN (no transforms)"""

    def __init__(self, field, eq_type):
        self.f = field
        self.eq_type = eq_type
        self.D = field.D
        self.n_out = field.m
        self.reads = ()

    def spinn(self):
        return fields.make_spinn(self.f.spinn_module(), self.eq_type, self.f.D, self.f.r, self.f.m)

    def twin_pinn(self):
        """pointwise PINN evaluating the same function from the same leaves"""
        return fields.make_pinn(self.f.point_module(), self.eq_type, self.f.m)

    def nn_params(self):
        import equinox as eqx

        return eqx.partition(self.f.spinn_module(), eqx.is_inexact_array)[0]

    def twin_params(self):
        import equinox as eqx

        return eqx.partition(self.f.point_module(), eqx.is_inexact_array)[0]

    def val(self, z, eq=None):
        return self.f.val(z)

    def grad(self, z, eq=None):
        return self.f.grad(z)

    def hess(self, z, eq=None):
        return self.f.hess(z)
