"""User-side equations written in the harness (the public extension point of jinns):
random analytic residual maps with an explicit component axis, and their numpy twins.

    r_c(z) = sum_o A[c,o] u_o(z) + Bz[c].z + C[c]*theta + E[c]*u_0(z)^2 + G[c]*d u_0/d z_last

theta = sum(params.eq_params['theta']) (identity for a scalar / a (1,) row).
Only imported inside workers (needs jinns).
"""
import equinox as eqx
import jax
import jax.numpy as jnp
import numpy as np

import jinns
from jinns.utils._utils import _get_grid


def _theta(params):
    return jnp.sum(params.eq_params["theta"])


def _kappa(params):
    if "kappa" in params.eq_params:
        return jnp.sum(params.eq_params["kappa"])
    return 0.0


def _resid(self, z, uval, dlast, params):
    return (self.A @ uval + self.Bz @ z + self.C * _theta(params) + self.E * uval[0] ** 2
            + self.G * dlast + self.K * _kappa(params))


class RandODE(jinns.loss.ODE):
    A: jax.Array
    Bz: jax.Array
    C: jax.Array
    E: jax.Array
    G: jax.Array
    K: jax.Array

    def equation(self, t, u, params):
        z = jnp.reshape(t, (1,))
        d = jax.grad(lambda tt: u(tt, params)[0])(jnp.reshape(t, ()))
        return _resid(self, z, u(t, params), d, params)


class RandStatio(jinns.loss.PDEStatio):
    A: jax.Array
    Bz: jax.Array
    C: jax.Array
    E: jax.Array
    G: jax.Array
    K: jax.Array

    def equation(self, x, u, params):
        if isinstance(u, jinns.utils.SPINN):
            return _resid_grid(self, None, x, u, params)
        d = jax.grad(lambda xx: u(xx, params)[0])(x)[-1]
        return _resid(self, x, u(x, params), d, params)


class RandNonStatio(jinns.loss.PDENonStatio):
    A: jax.Array
    Bz: jax.Array
    C: jax.Array
    E: jax.Array
    G: jax.Array
    K: jax.Array

    def equation(self, t, x, u, params):
        if isinstance(u, jinns.utils.SPINN):
            return _resid_grid(self, t, x, u, params)
        d = jax.grad(lambda xx: u(t, xx, params)[0])(x)[-1]
        return _resid(self, jnp.concatenate([t, x]), u(t, x, params), d, params)


def _resid_grid(self, t, x, u, params):
    """separable network: whole tensor grid at once; no derivative term (G ignored)"""
    if t is None:
        vals = u(x, params)
        cols = x
    else:
        vals = u(t, x, params)
        cols = jnp.concatenate([t, x], axis=-1)
    zg = _get_grid(cols)
    return (jnp.einsum("co,...o->...c", self.A, vals) + jnp.einsum("cd,...d->...c", self.Bz, zg)
            + self.C * _theta(params) + self.E * vals[..., 0:1] ** 2 + self.K * _kappa(params))


class ResidSpec:
    """numpy twin + factory"""

    def __init__(self, seed, ncomp, n_out, D, with_deriv=True):
        rng = np.random.default_rng([int(seed), ncomp, n_out, D, 23])
        self.A = rng.uniform(-1, 1, (ncomp, n_out))
        self.Bz = rng.uniform(-1, 1, (ncomp, D))
        self.C = rng.uniform(-1, 1, ncomp)
        self.E = rng.uniform(-1, 1, ncomp)
        self.G = rng.uniform(-1, 1, ncomp) if with_deriv else np.zeros(ncomp)
        self.K = rng.uniform(-1, 1, ncomp)
        self.ncomp = ncomp

    def module(self, kind, **kw):
        cls = {"ode": RandODE, "statio": RandStatio, "nonstatio": RandNonStatio}[kind]
        return cls(A=jnp.asarray(self.A), Bz=jnp.asarray(self.Bz), C=jnp.asarray(self.C),
                   E=jnp.asarray(self.E), G=jnp.asarray(self.G), K=jnp.asarray(self.K), **kw)

    def resid(self, net, z, eq, theta=None):
        z = np.asarray(z, float)
        v = net.val(z, eq)
        th = float(np.sum(eq["theta"])) if theta is None else theta
        g = net.grad(z, eq)[0, -1] if np.any(self.G) else 0.0
        ka = float(np.sum(eq["kappa"])) if "kappa" in eq else 0.0
        return self.A @ v + self.Bz @ z + self.C * th + self.E * v[0] ** 2 + self.G * g + self.K * ka


# ----------------------------------------------------------------------------- an equation singular at one point
def _sing(z, zs):
    return jnp.where(jnp.all(z == zs), jnp.nan, 0.0)


class SingODE(jinns.loss.ODE):
    """the inner user equation plus a term that is NaN exactly at the point zs (sin(t)/t at 0, log of a coordinate..)"""
    inner: object
    zs: jax.Array

    def equation(self, t, u, params):
        return self.inner.equation(t, u, params) + _sing(jnp.reshape(t, (1,)), self.zs)


class SingStatio(jinns.loss.PDEStatio):
    inner: object
    zs: jax.Array

    def equation(self, x, u, params):
        return self.inner.equation(x, u, params) + _sing(x, self.zs)


class SingNonStatio(jinns.loss.PDENonStatio):
    inner: object
    zs: jax.Array

    def equation(self, t, x, u, params):
        return self.inner.equation(t, x, u, params) + _sing(jnp.concatenate([t, x]), self.zs)


def singular_module(inner, kind, zs):
    cls = {"ode": SingODE, "statio": SingStatio, "nonstatio": SingNonStatio}[kind]
    return cls(inner=inner, zs=jnp.asarray(zs, dtype=float))


# ----------------------------------------------------------------------------- a parameter at the edge of its domain
class SqrtODE(jinns.loss.ODE):
    """u' + sqrt(sq) u - theta : finite at sq = 0, but its derivative with respect to sq is infinite there"""

    def equation(self, t, u, params):
        d = jax.grad(lambda tt: u(tt, params)[0])(jnp.reshape(t, ()))
        return jnp.reshape(d + jnp.sqrt(params.eq_params["sq"]) * u(t, params)[0] - _theta(params), (1,))


class SqrtStatio(jinns.loss.PDEStatio):
    def equation(self, x, u, params):
        d = jax.grad(lambda xx: u(xx, params)[0])(x)[-1]
        return jnp.reshape(d + jnp.sqrt(params.eq_params["sq"]) * u(x, params)[0] - _theta(params), (1,))


# ----------------------------------------------------------------------------- a plain forward problem (no eq. parameter)
class ForwardODE(jinns.loss.ODE):
    """u' + 0.7 u - sin(t): no equation parameter at all"""

    def equation(self, t, u, params):
        d = jax.grad(lambda tt: u(tt, params)[0])(jnp.reshape(t, ()))
        return jnp.reshape(d + 0.7 * u(t, params)[0] - jnp.sin(jnp.reshape(t, ())), (1,))


# ----------------------------------------------------------------------------- system equations
def _sys_resid(self, z, us, params_dict):
    return self.A @ us + self.Bz @ z + self.C * jnp.sum(params_dict.eq_params["theta"])


class SysODE(jinns.loss.ODE):
    A: jax.Array
    Bz: jax.Array
    C: jax.Array
    names: tuple = eqx.field(static=True)

    def equation(self, t, u_dict, params_dict):
        us = jnp.stack([u_dict[k](t, params_dict.extract_params(k))[0] for k in self.names])
        return _sys_resid(self, jnp.reshape(t, (1,)), us, params_dict)


class SysStatio(jinns.loss.PDEStatio):
    A: jax.Array
    Bz: jax.Array
    C: jax.Array
    names: tuple = eqx.field(static=True)

    def equation(self, x, u_dict, params_dict):
        us = jnp.stack([u_dict[k](x, params_dict.extract_params(k))[0] for k in self.names])
        return _sys_resid(self, x, us, params_dict)


class SysNonStatio(jinns.loss.PDENonStatio):
    A: jax.Array
    Bz: jax.Array
    C: jax.Array
    names: tuple = eqx.field(static=True)

    def equation(self, t, x, u_dict, params_dict):
        us = jnp.stack([u_dict[k](t, x, params_dict.extract_params(k))[0] for k in self.names])
        return _sys_resid(self, jnp.concatenate([t, x]), us, params_dict)


class SysSpec:
    def __init__(self, seed, ncomp, names, D):
        rng = np.random.default_rng([int(seed), ncomp, len(names), D, 29])
        self.A = rng.uniform(-1, 1, (ncomp, len(names)))
        # time gets a much larger coefficient than space: (t, x) vs (x, t) is visible in the value
        self.Bz = rng.uniform(0.5, 1.0, (ncomp, D)) * np.array([7.0] + [1.0] * (D - 1))
        self.C = rng.uniform(-1, 1, ncomp)
        self.names = tuple(names)

    def module(self, kind, **kw):
        cls = {"ode": SysODE, "statio": SysStatio, "nonstatio": SysNonStatio}[kind]
        return cls(A=jnp.asarray(self.A), Bz=jnp.asarray(self.Bz), C=jnp.asarray(self.C), names=self.names, **kw)

    def resid(self, nets, z, eq, theta=None):
        us = np.array([nets[k].val(z, eq)[0] for k in self.names])
        th = float(np.sum(eq["theta"])) if theta is None else theta
        return self.A @ us + self.Bz @ np.asarray(z, float) + self.C * th


# ----------------------------------------------------------------------------- fault-injecting equations (C18)
def _tick_fault(self, params):
    return jnp.where(jnp.sum(params.eq_params["tick"]) == self.kfault, jnp.nan, 0.0)


class TickODE(RandODE):
    kfault: jax.Array

    def equation(self, t, u, params):
        return RandODE.equation(self, t, u, params) + _tick_fault(self, params)


class TickStatio(RandStatio):
    kfault: jax.Array

    def equation(self, x, u, params):
        return RandStatio.equation(self, x, u, params) + _tick_fault(self, params)


def tick_module(spec, kind, kfault):
    cls = {"ode": TickODE, "statio": TickStatio}[kind]
    return cls(A=jnp.asarray(spec.A), Bz=jnp.asarray(spec.Bz), C=jnp.asarray(spec.C), E=jnp.asarray(spec.E),
               G=jnp.asarray(spec.G), K=jnp.asarray(spec.K), kfault=jnp.asarray(float(kfault)))
