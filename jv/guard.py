"""Exception discipline for "for every configuration" properties.

``call(fn, *a)`` runs real jinns code and classifies what it raises:

* explicit rejection: the innermost frame of the traceback is a ``raise`` statement inside
  the repository's ``jinns`` package raising ValueError / NotImplementedError /
  RuntimeError  ->  ``Unsupported`` (counted, not a violation);
* an exception whose innermost frame lies in the harness (``/verif/jv``)  ->  re-raised
  as ``HarnessError`` (inconclusive, never a violation);
* anything else that passed through a jinns frame (shape errors from inside JAX,
  UnboundLocalError, ``TypeError: Mismatch`` ...)  ->  ``Crash`` (a violation of the
  property that quantifies over that configuration).
"""
import ast
import functools
import os
import traceback

from . import env

JINNS_DIR = os.path.join(env.REPO, "jinns") + os.sep
HARNESS_DIR = os.path.join(env.VERIF_DIR, "jv") + os.sep


class Unsupported(Exception):
    def __init__(self, reason, where=""):
        super().__init__(reason)
        self.reason = reason
        self.where = where


class Crash(Exception):
    def __init__(self, etype, msg, where, tb_text):
        super().__init__("%s: %s @ %s" % (etype, msg, where))
        self.etype = etype
        self.msg = msg
        self.where = where
        self.tb_text = tb_text


class HarnessError(Exception):
    pass


@functools.lru_cache(maxsize=None)
def _raise_spans(filename):
    try:
        with open(filename) as f:
            tree = ast.parse(f.read())
    except Exception:
        return ()
    spans = []
    for node in ast.walk(tree):
        if isinstance(node, ast.Raise):
            spans.append((node.lineno, getattr(node, "end_lineno", node.lineno)))
    return tuple(spans)


def _is_raise_line(filename, lineno):
    return any(a <= lineno <= b for a, b in _raise_spans(filename))


def classify(exc):
    """-> ("unsupported"|"crash"|"harness", where, text)"""
    tb = traceback.extract_tb(exc.__traceback__)
    frames = [(os.path.abspath(f.filename), f.lineno, f.name) for f in tb]
    jinns_frames = [f for f in frames if f[0].startswith(JINNS_DIR)]
    innermost = frames[-1] if frames else ("?", 0, "?")
    text = "".join(traceback.format_exception(type(exc), exc, exc.__traceback__))[-3000:]
    if not jinns_frames:
        return "harness", "%s:%d" % (innermost[0], innermost[1]), text
    last_j = jinns_frames[-1]
    where = "%s:%s" % (os.path.relpath(last_j[0], env.REPO), last_j[2])
    if innermost[0].startswith(HARNESS_DIR):
        # a user-side callback of ours (equation, boundary function ...) blew up
        return "harness", "%s:%d" % (innermost[0], innermost[1]), text
    if (
        innermost[0].startswith(JINNS_DIR)
        and isinstance(exc, (ValueError, NotImplementedError, RuntimeError))
        and _is_raise_line(innermost[0], innermost[1])
    ):
        return "unsupported", where, text
    return "crash", where, text


def call(fn, *args, **kwargs):
    try:
        return fn(*args, **kwargs)
    except (Unsupported, Crash, HarnessError):
        raise
    except Exception as exc:  # noqa: BLE001 - classification is the point
        kind, where, text = classify(exc)
        if kind == "unsupported":
            raise Unsupported("%s: %s" % (type(exc).__name__, str(exc)[:160]), where) from None
        if kind == "harness":
            raise HarnessError(text) from None
        raise Crash(type(exc).__name__, str(exc)[:300], where, text) from None


def call_supported(fn, *a, **kw):
    """Like ``call`` for inputs that the property quantifies over and the unchanged tree accepts: an explicit rejection
    by jinns is then not an 'unsupported configuration' but a failure of the property for that input (``Crash``)."""
    try:
        return call(fn, *a, **kw)
    except Unsupported as u:
        raise Crash("Refused", u.reason, u.where, "explicit rejection of an input the property quantifies over: %s" % u.reason)

