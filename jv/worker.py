"""Worker: runs one shard of cases of one check in a fresh interpreter.

usage: python -m jv.worker <Cxx> <shard_in.json> <shard_out.jsonl>
Each finished case is appended (and flushed) to the output so that a watchdog kill still
leaves everything that was completed.
"""
import importlib
import json
import os
import sys
import time
import traceback


def main():
    prop, fin, fout = sys.argv[1:4]
    from . import env

    env.setup_worker()
    from . import guard
    from .core import Rec

    monitors = None
    if os.environ.get("JV_NO_CONTRACTS") != "1":
        from . import monitors

        monitors.install()

    mod = importlib.import_module("jv.checks.%s" % prop.lower())
    with open(fin) as f:
        shard = json.load(f)
    out = open(fout, "a")

    def emit(obj):
        out.write(json.dumps(obj) + "\n")
        out.flush()

    # oracle self-test (harness bug => inconclusive, never a violation)
    st = getattr(mod, "selftest", None)
    if st is not None and shard.get("selftest", True):
        try:
            info = st()
            emit({"selftest": "ok", "info": info})
        except Exception:  # noqa: BLE001
            emit({"selftest": "failed", "info": traceback.format_exc()[-3000:]})
            return 0

    for case in shard["cases"]:
        rec = Rec(case)
        t0 = time.time()
        try:
            mod.run_case(case, rec)
        except guard.Unsupported as u:
            rec.unsupp("%s @ %s" % (u.reason, u.where))
        except guard.Crash as c:
            sigf = getattr(mod, "crash_signature", None)
            sig = sigf(case, c) if sigf else "crash/%s/%s" % (case.get("kind", "?"), c.etype)
            rec.violation(sig, "crash in jinns: %s" % c, traceback=c.tb_text[-1500:])
        except guard.HarnessError as h:
            rec.inconcl("harness error: %s" % h)
        except Exception:  # noqa: BLE001
            rec.inconcl("harness exception: %s" % traceback.format_exc()[-2500:])
        if monitors is not None:
            try:
                monitors.drain(rec)
            except Exception:  # noqa: BLE001
                rec.inconcl("contract monitor failed: %s" % traceback.format_exc()[-800:])
        js = rec.to_json()
        js["wall_s"] = round(time.time() - t0, 3)
        emit(js)
    fin_hook = getattr(mod, "finalize_worker", None)
    if fin_hook is not None:
        try:
            emit({"worker_final": fin_hook()})
        except Exception:  # noqa: BLE001
            emit({"worker_final": {"error": traceback.format_exc()[-1500:]}})
    emit({"shard_done": True})
    return 0


if __name__ == "__main__":
    sys.exit(main())
