"""Always-on contracts (DESIGN §2.3): icontract post-conditions attached from the harness
to the *real* jinns methods.  They run on every call any workload makes - including the
calls made from inside jinns.solve's compiled lax.while_loop, where the condition ships the
traced values to the host with jax.debug.callback and the host-side monitor judges them.

  evaluate of the five loss classes : total == sum of the returned terms            (C03)
  get_batch of the collocation generators : every returned point lies in the box    (C08)

Conditions record and return True (they never raise inside the observed computation); the
worker drains the monitor after each case: counters go to the evidence, failed contracts
become violations with a signature prefixed by the owning property.
"""
import numpy as np

STATE = {"installed": False, "eager": 0, "traced": 0, "gb_eager": 0, "gb_traced": 0, "fail": [],
         "judged_total": 0, "judged_box": 0}


class ContractBroken(Exception):
    pass


def _judge_total(cls, total, terms_vals):
    STATE["judged_total"] += 1
    tol = 1e-9 if np.asarray(total).dtype == np.float64 else 2e-5  # float32 totals: a few ulps of the largest term
    total = float(np.asarray(total))
    s = float(np.sum([float(np.asarray(v)) for v in terms_vals]))
    ok = (np.isnan(total) and np.isnan(s)) or abs(total - s) <= tol * max(1.0, abs(s), max([abs(float(np.asarray(v))) for v in terms_vals] or [0.0]))
    if not ok and len(STATE["fail"]) < 20:
        STATE["fail"].append(("C03", "contract/total-not-sum/%s" % cls,
                              "%s.evaluate returned total %r but its terms sum to %r" % (cls, total, s)))


def _make_total_cond(cls):
    import jax

    def total_is_sum_of_terms(result):
        try:
            total, terms = result
            vals = [terms[k] for k in sorted(terms)]
            if isinstance(total, jax.core.Tracer) or any(isinstance(v, jax.core.Tracer) for v in vals):
                STATE["traced"] += 1
                jax.debug.callback(lambda t, *vs: _judge_total(cls, t, vs), total, *vals)
            else:
                STATE["eager"] += 1
                _judge_total(cls, total, vals)
        except Exception:  # noqa: BLE001 - a monitor must never disturb the observed code
            STATE.setdefault("monitor_errors", 0)
            STATE["monitor_errors"] += 1
        return True

    return total_is_sum_of_terms


def _judge_box(cls, what, arr, lo, hi):
    STATE["judged_box"] += 1
    a = np.asarray(arr)
    l, h = np.asarray(lo, dtype=a.dtype), np.asarray(hi, dtype=a.dtype)
    if a.size and (np.any(a < l) or np.any(a > h)) and len(STATE["fail"]) < 20:
        STATE["fail"].append(("C08", "contract/batch-outside-domain/%s/%s" % (cls, what),
                              "%s.get_batch returned %s outside [%s, %s]" % (cls, what, l, h)))


def _make_batch_cond(cls):
    import jax

    def batch_in_domain(self, result):
        try:
            _, batch = result
            items = []
            if hasattr(batch, "temporal_batch"):
                items.append(("times", batch.temporal_batch, self.tmin, self.tmax))
            if hasattr(batch, "inside_batch"):
                for ax in range(self.dim):
                    items.append(("x%d" % ax, batch.inside_batch[:, ax], self.min_pts[ax], self.max_pts[ax]))
            if hasattr(batch, "times_x_inside_batch"):
                items.append(("times", batch.times_x_inside_batch[:, 0], self.tmin, self.tmax))
                for ax in range(self.dim):
                    items.append(("x%d" % ax, batch.times_x_inside_batch[:, 1 + ax], self.min_pts[ax], self.max_pts[ax]))
            traced = any(isinstance(it[1], jax.core.Tracer) for it in items)
            STATE["gb_traced" if traced else "gb_eager"] += 1
            for what, arr, lo, hi in items:
                if traced:
                    jax.debug.callback(lambda a, l, h, what=what: _judge_box(cls, what, a, l, h), arr, lo, hi)
                else:
                    _judge_box(cls, what, arr, lo, hi)
        except Exception:  # noqa: BLE001
            STATE.setdefault("monitor_errors", 0)
            STATE["monitor_errors"] += 1
        return True

    return batch_in_domain


def install():
    if STATE["installed"]:
        return
    import icontract
    import jinns

    for cls in (jinns.loss.LossODE, jinns.loss.LossPDEStatio, jinns.loss.LossPDENonStatio,
                jinns.loss.SystemLossODE, jinns.loss.SystemLossPDE):
        wrapped = icontract.ensure(_make_total_cond(cls.__name__), error=ContractBroken)(cls.evaluate)
        type.__setattr__(cls, "evaluate", wrapped)
    for cls in (jinns.data.DataGeneratorODE, jinns.data.CubicMeshPDEStatio, jinns.data.CubicMeshPDENonStatio):
        wrapped = icontract.ensure(_make_batch_cond(cls.__name__), error=ContractBroken)(cls.get_batch)
        type.__setattr__(cls, "get_batch", wrapped)
    STATE["installed"] = True


def drain(rec):
    """called by the worker after every case"""
    import jax

    try:
        jax.effects_barrier()
    except Exception:  # noqa: BLE001
        pass
    for k_src, k_dst in (("eager", "contract_total_is_sum_eager"), ("traced", "contract_total_is_sum_traced_sites"),
                         ("gb_eager", "contract_batch_in_domain_eager"), ("gb_traced", "contract_batch_in_domain_traced_sites"),
                         ("judged_total", "contract_total_is_sum_judged"), ("judged_box", "contract_batch_in_domain_judged")):
        if STATE[k_src]:
            rec.count(k_dst, STATE[k_src])
            STATE[k_src] = 0
    if STATE.get("monitor_errors"):
        rec.count("contract_monitor_errors", STATE["monitor_errors"])
        STATE["monitor_errors"] = 0
    for owner, sig, what in STATE["fail"]:
        rec.violation("%s:%s" % (owner, sig), "always-on contract of %s failed during this workload: %s" % (owner, what))
    STATE["fail"] = []
