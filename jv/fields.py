"""Analytic "networks" with closed-form derivatives - the independent oracle.

jinns' ``PINN(mlp=...)`` / ``SPINN(spinn_mlp=...)`` accept any equinox module.  The
modules below are smooth analytic fields whose value / gradient / Hessian with respect to
the input ``z = (t, x_1..x_d)`` (or ``(x_1..x_d)``) are coded a second time in
numpy/float64 *by hand* (no AD, no JAX).  The jinns code differentiates the module with
JAX AD; the oracle uses the hand-written formulas.

Families
  TrigField   sum_k A sin(w.z+phi) + 1/2 z'Qz + b.z + c + G exp(-|z-m|^2/2s^2)
  PolyField   all monomials of total degree <= deg with a coefficient tensor (family B:
              one-hot tensors enumerate the monomial basis)
  SepField    separable sum_j prod_d f_dj(z_d), f = a sin(w s + p) + c s + e
              (SPINN module + pointwise twin sharing the same leaves)
"""
import itertools

import equinox as eqx
import jax
import jax.numpy as jnp
import numpy as np


# ----------------------------------------------------------------------------- TrigField
class TrigModule(eqx.Module):
    A: jax.Array
    W: jax.Array
    PHI: jax.Array
    Q: jax.Array
    B: jax.Array
    C0: jax.Array
    G: jax.Array
    M: jax.Array
    S: jax.Array

    def __call__(self, z):
        arg = jnp.einsum("ckd,d->ck", self.W, z) + self.PHI
        s = jnp.sum(self.A * jnp.sin(arg), axis=1)
        q = 0.5 * jnp.einsum("d,cde,e->c", z, self.Q, z)
        lin = self.B @ z + self.C0
        dz = z[None, :] - self.M
        g = self.G * jnp.exp(-jnp.sum(dz**2, axis=1) / (2 * self.S**2))
        return s + q + lin + g


class TrigField:
    """numpy side + module factory"""

    def __init__(self, seed, D, n_out, K=3, scale=1.0, gauss=True):
        rng = np.random.default_rng([int(seed), D, n_out, 7])
        self.D, self.n_out, self.K = D, n_out, K
        c = {}
        c["A"] = scale * rng.uniform(0.3, 1.0, (n_out, K)) * rng.choice([-1, 1], (n_out, K))
        # every coordinate (time included) gets its own non-zero frequency
        c["W"] = rng.uniform(0.4, 1.6, (n_out, K, D)) * rng.choice([-1, 1], (n_out, K, D))
        c["PHI"] = rng.uniform(0, 2 * np.pi, (n_out, K))
        q = rng.uniform(-0.6, 0.6, (n_out, D, D))
        c["Q"] = scale * 0.5 * (q + np.transpose(q, (0, 2, 1)))
        c["B"] = scale * rng.uniform(-1, 1, (n_out, D))
        c["C0"] = scale * rng.uniform(-1, 1, (n_out,))
        c["G"] = (scale * rng.uniform(0.5, 1.5, (n_out,)) * rng.choice([-1, 1], (n_out,))
                  if gauss else np.zeros((n_out,)))
        c["M"] = rng.uniform(-0.5, 1.0, (n_out, D))
        c["S"] = rng.uniform(0.8, 1.6, (n_out,))
        self.c = c

    def module(self):
        return TrigModule(**{k: jnp.asarray(v) for k, v in self.c.items()})

    def leaves(self):
        """parameter pytree with the structure jinns will see (eqx.partition of module)"""
        m = self.module()
        return eqx.partition(m, eqx.is_inexact_array)[0]

    def val(self, z):
        c = self.c
        z = np.asarray(z, dtype=np.float64)
        out = np.zeros(self.n_out)
        for o in range(self.n_out):
            v = 0.0
            for k in range(self.K):
                v += c["A"][o, k] * np.sin(np.dot(c["W"][o, k], z) + c["PHI"][o, k])
            v += 0.5 * z @ c["Q"][o] @ z + np.dot(c["B"][o], z) + c["C0"][o]
            dz = z - c["M"][o]
            v += c["G"][o] * np.exp(-np.dot(dz, dz) / (2 * c["S"][o] ** 2))
            out[o] = v
        return out

    def grad(self, z):
        c = self.c
        z = np.asarray(z, dtype=np.float64)
        out = np.zeros((self.n_out, self.D))
        for o in range(self.n_out):
            g = np.zeros(self.D)
            for k in range(self.K):
                g += c["A"][o, k] * np.cos(np.dot(c["W"][o, k], z) + c["PHI"][o, k]) * c["W"][o, k]
            g += c["Q"][o] @ z + c["B"][o]
            dz = z - c["M"][o]
            e = np.exp(-np.dot(dz, dz) / (2 * c["S"][o] ** 2))
            g += c["G"][o] * e * (-dz / c["S"][o] ** 2)
            out[o] = g
        return out

    def hess(self, z):
        c = self.c
        z = np.asarray(z, dtype=np.float64)
        out = np.zeros((self.n_out, self.D, self.D))
        for o in range(self.n_out):
            h = np.zeros((self.D, self.D))
            for k in range(self.K):
                w = c["W"][o, k]
                h -= c["A"][o, k] * np.sin(np.dot(w, z) + c["PHI"][o, k]) * np.outer(w, w)
            h += c["Q"][o]
            dz = z - c["M"][o]
            s2 = c["S"][o] ** 2
            e = np.exp(-np.dot(dz, dz) / (2 * s2))
            h += c["G"][o] * e * (np.outer(dz, dz) / s2**2 - np.eye(self.D) / s2)
            out[o] = h
        return out


# ----------------------------------------------------------------------------- PolyField
def multi_indices(D, deg):
    return [a for a in itertools.product(range(deg + 1), repeat=D) if sum(a) <= deg]


class PolyModule(eqx.Module):
    C: jax.Array  # (n_out, n_monomials)
    exps: tuple = eqx.field(static=True)

    def __call__(self, z):
        feats = jnp.stack(
            [jnp.prod(jnp.stack([z[d] ** e for d, e in enumerate(a)])) for a in self.exps]
        )
        return self.C @ feats


class PolyField:
    def __init__(self, D, n_out, C=None, deg=3):
        self.D, self.n_out, self.deg = D, n_out, deg
        self.exps = tuple(multi_indices(D, deg))
        self.C = np.zeros((n_out, len(self.exps))) if C is None else np.asarray(C, float)

    @classmethod
    def onehot(cls, D, n_out, comp, mono_idx, deg=3, coef=1.0, fill=None):
        f = cls(D, n_out, deg=deg)
        if fill is not None:
            # other components get a fixed non-trivial low-degree content
            f.C[:] = fill
        f.C[comp, :] = 0.0
        f.C[comp, mono_idx] = coef
        return f

    def module(self):
        return PolyModule(C=jnp.asarray(self.C), exps=self.exps)

    def leaves(self):
        return eqx.partition(self.module(), eqx.is_inexact_array)[0]

    @staticmethod
    def _mono(z, a, der=()):
        """value of d/dz_der[0] d/dz_der[1] (prod z_d^a_d)"""
        a = list(a)
        coef = 1.0
        for d in der:
            if a[d] == 0:
                return 0.0
            coef *= a[d]
            a[d] -= 1
        v = coef
        for d, e in enumerate(a):
            v *= z[d] ** e
        return v

    def val(self, z):
        z = np.asarray(z, float)
        return np.array([sum(self.C[o, i] * self._mono(z, a) for i, a in enumerate(self.exps))
                         for o in range(self.n_out)])

    def grad(self, z):
        z = np.asarray(z, float)
        out = np.zeros((self.n_out, self.D))
        for o in range(self.n_out):
            for d in range(self.D):
                out[o, d] = sum(self.C[o, i] * self._mono(z, a, (d,))
                                for i, a in enumerate(self.exps) if self.C[o, i] != 0.0)
        return out

    def hess(self, z):
        z = np.asarray(z, float)
        out = np.zeros((self.n_out, self.D, self.D))
        for o in range(self.n_out):
            for d in range(self.D):
                for e in range(self.D):
                    out[o, d, e] = sum(self.C[o, i] * self._mono(z, a, (d, e))
                                       for i, a in enumerate(self.exps) if self.C[o, i] != 0.0)
        return out


# ----------------------------------------------------------------------------- SepField
def _sep_factor(mod, s):
    poly = (mod.P[..., 0] + mod.P[..., 1] * s + mod.P[..., 2] * s * s
            + mod.P[..., 3] * s * s * s)
    return mod.a * jnp.sin(mod.w * s + mod.p) + poly


class SepModule(eqx.Module):
    """separable network in the calling convention of jinns' _SPINN: __call__(t, x) ->
    (D, r*m) array of the one-dimensional factor values"""

    a: jax.Array
    w: jax.Array
    p: jax.Array
    P: jax.Array  # (D, J, 4) polynomial coefficients of each factor

    def __call__(self, t, x):
        if t is not None:
            dims = jnp.concatenate([t, x.flatten()], axis=0)
        else:
            dims = x.flatten()
        s = dims[:, None]
        return _sep_factor(self, s)


class SepPointModule(eqx.Module):
    """pointwise twin: same leaves, evaluates sum_j prod_d f_dj(z_d) at one point z"""

    a: jax.Array
    w: jax.Array
    p: jax.Array
    P: jax.Array
    r: int = eqx.field(static=True)
    m: int = eqx.field(static=True)

    def __call__(self, z):
        s = z[:, None]
        F = _sep_factor(self, s)  # (D, r*m)
        prod = jnp.prod(F, axis=0)  # (r*m,)
        return jnp.sum(prod.reshape(self.m, self.r), axis=1)


class SepField:
    def __init__(self, seed, D, r, m):
        rng = np.random.default_rng([int(seed), D, r, m, 11])
        self.D, self.r, self.m = D, r, m
        self.n_out = m
        J = r * m
        self.c = {
            "a": rng.uniform(0.4, 1.0, (D, J)) * rng.choice([-1, 1], (D, J)),
            "w": rng.uniform(0.5, 1.5, (D, J)),
            "p": rng.uniform(0, 2 * np.pi, (D, J)),
        }
        P = np.zeros((D, J, 4))
        P[..., 0] = rng.uniform(0.3, 1.0, (D, J)) * rng.choice([-1, 1], (D, J))
        P[..., 1] = rng.uniform(-0.5, 0.5, (D, J))
        P[..., 2] = rng.uniform(-0.3, 0.3, (D, J))
        self.c["P"] = P

    @classmethod
    def monomial(cls, D, m, comp, alpha, fill_seed=3):
        """r = 1; output `comp` is prod_d z_d^alpha_d, the other outputs a fixed random field"""
        f = cls(fill_seed, D, 1, m)
        f.c["a"][:, comp] = 0.0
        f.c["P"][:, comp, :] = 0.0
        for d, e in enumerate(alpha):
            f.c["P"][d, comp, e] = 1.0
        return f

    def spinn_module(self):
        return SepModule(**{k: jnp.asarray(v) for k, v in self.c.items()})

    def point_module(self):
        return SepPointModule(r=self.r, m=self.m, **{k: jnp.asarray(v) for k, v in self.c.items()})

    def _f(self, z, order):
        c = self.c
        s = np.asarray(z, float)[:, None]
        arg = c["w"] * s + c["p"]
        P = c["P"]
        if order == 0:
            return (c["a"] * np.sin(arg) + P[..., 0] + P[..., 1] * s + P[..., 2] * s**2
                    + P[..., 3] * s**3)
        if order == 1:
            return c["a"] * c["w"] * np.cos(arg) + P[..., 1] + 2 * P[..., 2] * s + 3 * P[..., 3] * s**2
        return -c["a"] * c["w"] ** 2 * np.sin(arg) + 2 * P[..., 2] + 6 * P[..., 3] * s

    def val(self, z):
        F = self._f(z, 0)
        return np.prod(F, axis=0).reshape(self.m, self.r).sum(axis=1)

    def grad(self, z):
        F0, F1 = self._f(z, 0), self._f(z, 1)
        out = np.zeros((self.m, self.D))
        for d in range(self.D):
            F = F0.copy()
            F[d] = F1[d]
            out[:, d] = np.prod(F, axis=0).reshape(self.m, self.r).sum(axis=1)
        return out

    def hess(self, z):
        F0, F1, F2 = self._f(z, 0), self._f(z, 1), self._f(z, 2)
        out = np.zeros((self.m, self.D, self.D))
        for d in range(self.D):
            for e in range(self.D):
                F = F0.copy()
                if d == e:
                    F[d] = F2[d]
                else:
                    F[d] = F1[d]
                    F[e] = F1[e]
                out[:, d, e] = np.prod(F, axis=0).reshape(self.m, self.r).sum(axis=1)
        return out


# ----------------------------------------------------------------------------- builders
def ident_in(_in, _params):
    return _in


def ident_out(_in, _out, _params):
    return _out


_SUB = {}


def _subclass(base):
    """a subclass of a jinns wrapper class that adds nothing (as HYPERPINN is a subclass of PINN): code that
    dispatches on the wrapper kind must treat it as its base"""
    if base not in _SUB:
        _SUB[base] = type("User" + base.__name__, (base,), {})
    return _SUB[base]


def make_pinn(mlp, eq_type, n_out, slice_solution=None, input_transform=None,
              output_transform=None, output_slice=None, subclass=False):
    from jinns.utils._pinn import PINN

    if subclass:
        PINN = _subclass(PINN)
    return PINN(
        mlp=mlp,
        slice_solution=slice_solution if slice_solution is not None else jnp.s_[0:n_out],
        eq_type=eq_type,
        input_transform=input_transform or ident_in,
        output_transform=output_transform or ident_out,
        output_slice=output_slice,
    )


def make_spinn(sep_module, eq_type, D, r, m, subclass=False):
    from jinns.utils._spinn import SPINN

    if subclass:
        SPINN = _subclass(SPINN)
    return SPINN(spinn_mlp=sep_module, d=D, r=r, eq_type=eq_type, m=m)


# ----------------------------------------------------------------------------- self-test
def fd_selftest(seed=0):
    """closed forms vs central finite differences, numpy only.  Raises on disagreement."""
    rng = np.random.default_rng(seed)
    worst = 0.0
    fams = []
    for D in (1, 2, 3):
        fams.append(TrigField(seed + D, D, 2))
        f = PolyField(D, 2)
        f.C[:] = rng.uniform(-1, 1, f.C.shape)
        fams.append(f)
        fams.append(SepField(seed + D, D, 2, 2))
    for f in fams:
        for _ in range(2):
            z = rng.uniform(0.2, 1.2, f.D)
            h = 1e-5
            g_fd = np.zeros((f.n_out, f.D))
            H_fd = np.zeros((f.n_out, f.D, f.D))
            for d in range(f.D):
                e = np.zeros(f.D)
                e[d] = h
                g_fd[:, d] = (f.val(z + e) - f.val(z - e)) / (2 * h)
                H_fd[:, :, d] = (f.grad(z + e) - f.grad(z - e)) / (2 * h)
            eg = np.max(np.abs(g_fd - f.grad(z)))
            eh = np.max(np.abs(H_fd - f.hess(z)))
            worst = max(worst, eg, eh)
            if eg > 1e-6 or eh > 1e-6:
                raise AssertionError("closed form disagrees with finite differences for %s: "
                                     "grad err %g hess err %g" % (type(f).__name__, eg, eh))
    return {"fd_worst_abs_err": float(worst), "fields_checked": len(fams) * 2}
