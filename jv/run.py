"""Check launcher:  ./check <Cxx> [--tier quick|thorough] [--seed N] [--replay file]

Three-valued verdict:
  exit 0  property held on everything observed (evidence says what was observed)
  exit 1  VIOLATION (a line `VIOLATION property=<id> replay=<path>` per mechanism)
  exit 2  INCONCLUSIVE (watchdog, harness error, oracle self-test failed, a deciding
          monitor observed nothing) - never printed as a violation
"""
import argparse
import collections
import hashlib
import importlib
import json
import os
import subprocess
import sys
import tempfile
import time

HERE = os.path.dirname(os.path.abspath(__file__))
VERIF = os.path.dirname(HERE)
PY = "/venv/bin/python"


def ensure_deps():
    if not os.path.exists(os.path.join(VERIF, ".deps", ".ok")):
        subprocess.run(["sh", os.path.join(VERIF, "setup.sh")], check=True,
                       stdout=subprocess.DEVNULL)


def reexec_if_needed():
    if os.environ.get("JV_REEXEC") == "1":
        return
    sys.path.insert(0, VERIF)
    from jv import env as _env

    e = _env.child_env(x64=True)
    e["JV_REEXEC"] = "1"
    os.execve(PY, [PY, "-m", "jv.run"] + sys.argv[1:], e)


def load_known():
    p = os.path.join(VERIF, "known_findings.json")
    if not os.path.exists(p):
        return []
    with open(p) as f:
        return json.load(f).get("findings", [])


def shard_cases(cases, jobs):
    groups = collections.defaultdict(list)
    for c in cases:
        groups[bool(c.get("x64", True))].append(c)
    shards = []
    total = sum(len(v) for v in groups.values())
    for x64, cs in groups.items():
        k = max(1, min(len(cs), round(jobs * len(cs) / max(total, 1)) or 1))
        bins = [[0.0, []] for _ in range(k)]
        for c in sorted(cs, key=lambda c: -float(c.get("cost", 1.0))):
            b = min(bins, key=lambda b: b[0])
            b[0] += float(c.get("cost", 1.0))
            b[1].append(c)
        for b in bins:
            if b[1]:
                shards.append((x64, b[1]))
    return shards


def run_shards(prop, shards, timeout, workdir, selftest=True):
    from jv import env as _env

    procs = []
    for k, (x64, cs) in enumerate(shards):
        fin = os.path.join(workdir, "in_%d.json" % k)
        fout = os.path.join(workdir, "out_%d.jsonl" % k)
        ferr = os.path.join(workdir, "err_%d.txt" % k)
        with open(fin, "w") as f:
            json.dump({"cases": cs, "selftest": selftest and k == 0}, f)
        open(fout, "w").close()
        e = _env.child_env(x64=x64)
        p = subprocess.Popen([PY, "-m", "jv.worker", prop, fin, fout], env=e, cwd=VERIF,
                             stdout=subprocess.DEVNULL, stderr=open(ferr, "w"))
        procs.append((p, fout, ferr, len(cs)))
    deadline = time.time() + timeout
    notes = []
    for p, fout, ferr, n in procs:
        left = max(1.0, deadline - time.time())
        try:
            p.wait(timeout=left)
        except subprocess.TimeoutExpired:
            p.kill()
            p.wait()
            notes.append("watchdog: shard killed after %ds" % timeout)
    results, finals, selftests = [], [], []
    for p, fout, ferr, n in procs:
        done = False
        got = 0
        with open(fout) as f:
            for line in f:
                line = line.strip()
                if not line:
                    continue
                try:
                    o = json.loads(line)
                except ValueError:
                    continue
                if "shard_done" in o:
                    done = True
                elif "selftest" in o:
                    selftests.append(o)
                elif "worker_final" in o:
                    finals.append(o["worker_final"])
                else:
                    results.append(o)
                    got += 1
        if not done and not (selftests and selftests[-1]["selftest"] == "failed"):
            tail = ""
            try:
                with open(ferr) as f:
                    tail = f.read()[-800:]
            except OSError:
                pass
            notes.append("shard incomplete: %d/%d cases (rc=%s) %s" % (got, n, p.returncode, tail))
    return results, finals, selftests, notes


def main(argv=None):
    ap = argparse.ArgumentParser()
    ap.add_argument("prop")
    ap.add_argument("--tier", default=os.environ.get("VERIF_TIER", "quick"),
                    choices=["quick", "thorough"])
    ap.add_argument("--seed", type=int, default=int(os.environ.get("VERIF_SEED", "0") or 0))
    ap.add_argument("--replay", default=None)
    ap.add_argument("--jobs", type=int, default=int(os.environ.get("VERIF_JOBS", "16")))
    ap.add_argument("--limit", type=int, default=0, help="debug: only first N cases")
    args = ap.parse_args(argv)
    prop = args.prop.upper()
    ensure_deps()
    reexec_if_needed()
    sys.path[:0] = [os.path.join(VERIF, ".deps"), VERIF]
    t0 = time.time()
    mod = importlib.import_module("jv.checks.%s" % prop.lower())
    known = [k for k in load_known() if k.get("property") == prop]
    known_sigs = set()
    for k in known:
        if k.get("status") == "known":
            known_sigs.update(k.get("signatures", []))
            if "signature" in k:
                known_sigs.add(k["signature"])

    workdir = tempfile.mkdtemp(prefix="jv_%s_" % prop, dir=os.environ.get("JV_WORK", None))
    try:
        if args.replay:
            with open(args.replay) as f:
                w = json.load(f)
            cases = [w["case"]]
            shards = [(bool(cases[0].get("x64", True)), cases)]
            results, finals, selftests, notes = run_shards(prop, shards, 3600, workdir,
                                                           selftest=False)
            print(json.dumps(results, indent=1)[:20000])
            bad = any(r["violations"] for r in results)
            for r in results:
                for v in r["violations"]:
                    print("VIOLATION property=%s replay=%s" % (prop, args.replay))
                    break
            return 1 if bad else (2 if notes or not results else 0)

        cases = mod.gen_cases(args.tier, args.seed)
        if args.limit:
            cases = cases[: args.limit]
        timeout = getattr(mod, "TIMEOUT", {}).get(args.tier, 1500 if args.tier == "quick" else 5400)
        shards = shard_cases(cases, args.jobs)
        results, finals, selftests, notes = run_shards(prop, shards, timeout, workdir)
    finally:
        import shutil

        shutil.rmtree(workdir, ignore_errors=True)

    # ---------------------------------------------------------------- aggregate
    counters = collections.Counter()
    keys = set()
    unsupported = collections.Counter()
    inconcl = list(notes)
    viol_by_sig = collections.OrderedDict()
    samples = []
    for st in selftests:
        if st["selftest"] != "ok":
            inconcl.append("oracle self-test failed: %s" % st["info"][-600:])
    for r in results:
        counters.update(r["counters"])
        keys.update(r["keys"])
        for u in r["unsupported"]:
            unsupported[u[:120]] += 1
        for m in r["inconclusive"]:
            inconcl.append(m[-700:])
        for v in r["violations"]:
            viol_by_sig.setdefault(v["sig"], []).append((r["case"], v))
        if r.get("sample") is not None and len(samples) < 3:
            samples.append({"case": r["case"], "observed": r["sample"]})
    if not samples and results:
        samples.append({"case": results[0]["case"]})
    for name, need in getattr(mod, "MIN_COUNTERS", {}).get(args.tier, {}).items():
        if counters.get(name, 0) < need:
            inconcl.append("non-vacuity: counter %s = %d < %d" % (name, counters.get(name, 0), need))
    if not results:
        inconcl.append("no case was executed")

    new_sigs, known_hit = [], []
    for sig, lst in viol_by_sig.items():
        if sig in known_sigs:
            known_hit.append((sig, lst))
        else:
            new_sigs.append((sig, lst))

    rdir = os.path.join(os.environ.get("JV_REPLAY_DIR", os.path.join(VERIF, "replays")), prop)
    for sig, lst in known_hit:
        print("KNOWN-FINDING: property=%s %s (%d cases) %s" % (prop, sig, len(lst), lst[0][1]["what"][:160]))
    for sig, lst in new_sigs:
        os.makedirs(rdir, exist_ok=True)
        case, v = lst[0]
        name = hashlib.sha1(sig.encode()).hexdigest()[:8]
        path = os.path.join(rdir, "%s_%s.json" % (sig.replace("/", "_")[:60], name))
        with open(path, "w") as f:
            json.dump({"property": prop, "signature": sig, "what": v["what"], "case": case,
                       "witness": v["witness"], "n_cases_with_this_signature": len(lst),
                       "seed": args.seed, "tier": args.tier}, f, indent=1)
        print("VIOLATION property=%s replay=%s" % (prop, path))
        print("  signature=%s cases=%d :: %s" % (sig, len(lst), v["what"][:300]))
    for m in inconcl[:8]:
        print("INCONCLUSIVE: %s" % m.replace("\n", " | ")[:600])

    # ---------------------------------------------------------------- evidence
    wall = time.time() - t0
    coverage = {
        "evaluations": len(results),
        "distinct_nontrivial": len(keys),
        "rule": getattr(mod, "RULE", ""),
        "samples": samples,
        "exhaustive": bool(getattr(mod, "exhaustive", lambda t: False)(args.tier)),
        "counters": dict(sorted(counters.items())),
        "unsupported_configurations": dict(unsupported.most_common(12)),
        "cases_generated": len(cases),
        "shards": len(shards),
        "known_findings_reported": [s for s, _ in known_hit],
        "violation_signatures": [s for s, _ in new_sigs],
        "inconclusive_notes": [m[:300] for m in inconcl[:8]],
        "oracle_selftest": [s.get("info") for s in selftests if s["selftest"] == "ok"][:1],
        "repo_under_test": os.environ.get("JINNS_VERIF_REPO", "/repo"),
        "slowest_cases_s": [[r.get("wall_s"), {k: v for k, v in r["case"].items() if not isinstance(v, (list, dict))}]
                            for r in sorted(results, key=lambda r: -r.get("wall_s", 0))[:3]],
    }
    summ = getattr(mod, "summarize", None)
    if summ is not None:
        try:
            coverage.update(summ(results, finals, args.tier))
        except Exception as exc:  # noqa: BLE001
            coverage["summarize_error"] = repr(exc)
    verdict = "violation" if new_sigs else ("inconclusive" if inconcl else "held_on_observed")
    coverage["verdict"] = verdict
    ev = {
        "property_id": prop,
        "tier": args.tier,
        "seed": args.seed,
        "level": getattr(mod, "LEVEL", "exploration"),
        "coverage": coverage,
        "assumptions": list(getattr(mod, "ASSUMPTIONS", [])),
        "wall_s": round(wall, 2),
        "violations": len(new_sigs),
    }
    evdir = os.environ.get("JV_EVIDENCE_DIR", os.path.join(VERIF, "evidence"))
    os.makedirs(evdir, exist_ok=True)
    evpath = os.path.join(evdir, "%s.json" % prop)
    with open(evpath, "w") as f:
        json.dump(ev, f, indent=1, sort_keys=True)
    try:
        import jsonschema

        with open("/root/.vp/EVIDENCE.schema.json") as f:
            jsonschema.validate(ev, json.load(f))
    except FileNotFoundError:
        pass
    except Exception as exc:  # noqa: BLE001
        print("INCONCLUSIVE: evidence file does not validate: %s" % str(exc)[:300])
        inconcl.append("evidence invalid")

    print("%s %s tier=%s seed=%d cases=%d distinct_nontrivial=%d unsupported=%d known=%d "
          "violations=%d wall=%.0fs" % (prop, verdict.upper(), args.tier, args.seed, len(results),
                                         len(keys), sum(unsupported.values()), len(known_hit),
                                         len(new_sigs), wall))
    if new_sigs:
        return 1
    if inconcl:
        return 2
    return 0


if __name__ == "__main__":
    sys.exit(main())
