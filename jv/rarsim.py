"""Drives residual-adaptive refinement (shared by C16 and C17).

Two sources of observations:
  direct : the harness does what solve() does - init_rar, then trigger_rar(i, ...) for
           i = 0..N-1 with the real loss and parameters - optionally drawing batches in
           between, and reads the generator after every call;
  e2e    : jinns.solve with a zero learning rate (parameters constant, so residuals can be
           recomputed) - iteration indices of the steps come from the guarded hook.
The guarded hook (JINNS_VERIF=1) supplies the candidate points of each step.
"""
import numpy as np

from . import fields, gens, nets

N_ITERS = 14
EQ0 = {"theta": 0.8, "phi": 0.3, "kappa": -0.6}


def _tdom(case):
    """time interval of a refinement case: starting at 0, after 0 and before 0 in turn"""
    t0 = [0.0, 0.5, -0.75][case["seed"] % 3]
    return t0, t0 + 1.5


def gen_rar_cases(tier, seed, n_direct, n_e2e):
    rng = np.random.default_rng(seed + 1616)
    kinds = ["ode", "statio2", "nonstatio1", "nonstatio2"]
    cases = []
    for k in range(n_direct + n_e2e):
        kind = kinds[k % 4]
        start, every = int(rng.integers(0, 5)), int(rng.integers(1, 5))
        sel_t, sel_x = int(rng.integers(1, 5)), int(rng.integers(1, 5))
        n0 = [3, 5, 10][int(rng.integers(3))]
        nt0 = n0 if rng.integers(2) else [3, 5, 10][int(rng.integers(3))]
        if kind.startswith("nonstatio"):
            # time and space are refined independently: equal, fewer and more initial space points than time
            # points, in turn (k // 4 walks the non-stationary cases of each dimension)
            rel = (k // 4) % 3
            if rel == 0:
                nt0 = n0
            else:
                lo, hi = (min(n0, nt0), max(n0, nt0)) if n0 != nt0 else ((3, 10) if n0 != 5 else (5, 10))
                n0, nt0 = (lo, hi) if rel == 1 else (hi, lo)
        if kind.startswith("nonstatio") and (k // 4) % 5 == 3:
            # refinement restricted to one axis: nothing is selected on the other one
            if (k // 20) % 2:
                sel_t = 0
            else:
                sel_x = 0
        steps_cap = int(rng.integers(0, 4)) if rng.integers(3) else 50  # capacity reached after 0..3 steps, or never
        slack_t, slack_x = int(rng.integers(0, max(sel_t, 1))), int(rng.integers(0, max(sel_x, 1)))
        c = dict(kind=kind, start=start, every=every, sel_t=sel_t, sel_x=sel_x, n_start=n0, nt_start=nt0,
                 n=n0 + steps_cap * sel_x + slack_x, nt=nt0 + (steps_cap if rng.integers(2) else steps_cap + 1) * sel_t + slack_t,
                 cand_t=sel_t + int(rng.integers(0, 4)), cand_x=sel_x + int(rng.integers(0, 5)),
                 mode="direct" if k < n_direct else "e2e", draws=int(rng.integers(0, 4)),
                 system=bool(k % 5 == 4 or k % 8 == 0), legs=2 if k % 7 in (1, 3, 5) else 1, with_validation=bool(k >= n_direct and (k - n_direct) % 2 == 1), seed=seed * 100000 + k, cost=2.0)
        # a store smaller than one set of additions can never be refined: not generated
        c["n"] = max(c["n"], sel_x)
        c["nt"] = max(c["nt"], sel_t)
        if kind in ("nonstatio1", "nonstatio2"):
            # product domains: at least max(sel) candidate pairs
            c["cand_t"] = max(c["cand_t"], 2)
            c["cand_x"] = max(c["cand_x"], 2)
            while c["cand_t"] * c["cand_x"] < max(sel_t, sel_x):
                c["cand_x"] += 1
        cases.append(c)
    return cases


def build(case, rng):
    """-> dict(loss, params, data, net, spec, kind)"""
    import jax.numpy as jnp
    import jinns
    from jinns.parameters import Params

    from . import eqs

    kind = case["kind"]
    d = {"ode": 0, "statio2": 2, "nonstatio1": 1, "nonstatio2": 2}[kind]
    pk = {"ode": "ode", "statio2": "statio", "nonstatio1": "nonstatio", "nonstatio2": "nonstatio"}[kind]
    D = {"ode": 1, "statio": d, "nonstatio": d + 1}[pk]
    eqt = {"ode": "ODE", "statio": "statio_PDE", "nonstatio": "nonstatio_PDE"}[pk]
    if case.get("system"):
        return build_system(case, rng, pk, d, D)
    net = nets.Net(fields.TrigField(case["seed"], D, 1), eqt)
    ncomp = 1 if pk == "nonstatio" else 1 + (case["seed"] // 4) % 2  # (seed % 4 is tied to the generator kind)
    spec = eqs.ResidSpec(case["seed"], ncomp, 1, D)
    het = None
    if case["seed"] % 3 == 0:
        # refinement together with a heterogeneous equation parameter: candidates are ranked by the residual the loss
        # minimises, i.e. with theta replaced by its function of the point
        hb = np.random.default_rng([case["seed"], 77]).uniform(2.0, 4.0, D)
        HB = jnp.asarray(hb)
        hcore = lambda z: 0.8 + HB @ z
        hj = {"ode": lambda t, u, params: hcore(jnp.reshape(t, (1,))), "statio": lambda x, u, params: hcore(x),
              "nonstatio": lambda t, x, u, params: hcore(jnp.concatenate([t, x]))}[pk]
        dyn = spec.module(pk, eq_params_heterogeneity={"theta": hj, "phi": None, "kappa": None})
        het = hb
    else:
        dyn = spec.module(pk)
    params = Params(nn_params=net.nn_params(), eq_params={k: jnp.asarray(v) for k, v in EQ0.items()})
    rar = {"start_iter": case["start"], "update_every": case["every"]}
    gd = dict(key=case["seed"] % 9973, rar=rar)
    mins, maxs = [-1.0, 0.5][:max(d, 1)], [1.0, 2.5][:max(d, 1)]
    if pk == "ode":
        rar.update(sample_size_times=case["cand_t"], selected_sample_size_times=case["sel_t"])
        gd.update(kind="ode", nt=case["nt"], bt=2, tmin=_tdom(case)[0], tmax=_tdom(case)[1], nt_start=case["nt_start"])
        loss = jinns.loss.LossODE(u=net.pinn(), dynamic_loss=dyn, initial_condition=(0.0, jnp.asarray([0.3])), params=params)
    elif pk == "statio":
        rar.update(sample_size_omega=case["cand_x"], selected_sample_size_omega=case["sel_x"])
        gd.update(kind="statio", n=case["n"], b=2, dim=d, min_pts=mins, max_pts=maxs, nb=None, bb=None, n_start=case["n_start"])
        loss = jinns.loss.LossPDEStatio(u=net.pinn(), dynamic_loss=dyn, params=params)
    else:
        rar.update(sample_size_times=case["cand_t"], selected_sample_size_times=case["sel_t"],
                   sample_size_omega=case["cand_x"], selected_sample_size_omega=case["sel_x"])
        gd.update(kind="nonstatio", n=case["n"], b=2, dim=d, min_pts=mins, max_pts=maxs, nb=None, bb=None,
                  nt=case["nt"], bt=2, tmin=_tdom(case)[0], tmax=_tdom(case)[1], cartesian=True, n_start=case["n_start"], nt_start=case["nt_start"])
        loss = jinns.loss.LossPDENonStatio(u=net.pinn(), dynamic_loss=dyn, params=params)
    data = gens.make_generator(gd)
    return dict(loss=loss, params=params, data=data, net=net, spec=spec, pk=pk, d=d, mins=mins, maxs=maxs, het=het,
                tmin=_tdom(case)[0], tmax=_tdom(case)[1])


def _rar_generator(case, pk, d):
    rar = {"start_iter": case["start"], "update_every": case["every"]}
    gd = dict(key=case["seed"] % 9973, rar=rar)
    mins, maxs = [-1.0, 0.5][:max(d, 1)], [1.0, 2.5][:max(d, 1)]
    if pk == "ode":
        rar.update(sample_size_times=case["cand_t"], selected_sample_size_times=case["sel_t"])
        gd.update(kind="ode", nt=case["nt"], bt=2, tmin=_tdom(case)[0], tmax=_tdom(case)[1], nt_start=case["nt_start"])
    elif pk == "statio":
        rar.update(sample_size_omega=case["cand_x"], selected_sample_size_omega=case["sel_x"])
        gd.update(kind="statio", n=case["n"], b=2, dim=d, min_pts=mins, max_pts=maxs, nb=None, bb=None, n_start=case["n_start"])
    else:
        rar.update(sample_size_times=case["cand_t"], selected_sample_size_times=case["sel_t"],
                   sample_size_omega=case["cand_x"], selected_sample_size_omega=case["sel_x"])
        gd.update(kind="nonstatio", n=case["n"], b=2, dim=d, min_pts=mins, max_pts=maxs, nb=None, bb=None,
                  nt=case["nt"], bt=2, tmin=_tdom(case)[0], tmax=_tdom(case)[1], cartesian=True, n_start=case["n_start"], nt_start=case["nt_start"])
    return gens.make_generator(gd), mins, maxs


def build_system(case, rng, pk, d, D):
    """two unknowns, two single-component equations (SystemLossODE / SystemLossPDE), no constraint parts"""
    from .checks.c13 import SystemProblem

    sp = SystemProblem(dict(kind=pk, d=d, E=2, U=2, names=["a", "b"], eqnames=["e1", "e2"], parts=[], weights="scalar",
                            scalar_equations=True, B=2, seed=case["seed"]), rng)
    sp.W["dyn"] = {e: 1.0 for e in sp.eqnames}
    sp.Wspec = dict(sp.Wspec, dyn=1.0)
    sp.make_data(2)
    loss = sp.loss()
    data, mins, maxs = _rar_generator(case, pk, d)
    return dict(loss=loss, params=sp.params, data=data, net=None, spec=None, sys=sp, pk=pk, d=d, mins=mins, maxs=maxs,
                tmin=_tdom(case)[0], tmax=_tdom(case)[1])


def state_of(data, pk):
    s = {"J": int(np.asarray(data.rar_iter_nb))}
    if pk in ("ode", "nonstatio"):
        s["times"] = np.asarray(data.times).copy()
        s["p_times"] = np.asarray(data.p_times).copy()
    if pk in ("statio", "nonstatio"):
        s["omega"] = np.asarray(data.omega).copy()
        s["p_omega"] = np.asarray(data.p_omega).copy()
    return s


def drain_sink():
    import jax
    import jinns.solver._rar as R

    jax.effects_barrier()
    ev = list(getattr(R, "_VERIF_SINK", []))
    if hasattr(R, "_VERIF_SINK"):
        R._VERIF_SINK.clear()
    return ev


def hook_available():
    import jinns.solver._rar as R

    return bool(getattr(R, "_VERIF", False)) and hasattr(R, "_VERIF_SINK")


def drive(case):
    """-> dict(history=[...], built=...) ; history entries:
       {"i": iteration, "kind": "draw"|"trigger", "before": state, "after": state, "events": [hook events]}"""
    import jax
    import jinns
    import optax
    from jinns.solver._rar import init_rar, trigger_rar

    rng = np.random.default_rng([case["seed"], 16])
    B = build(case, rng)
    pk = B["pk"]
    hist = []
    drain_sink()
    legs = int(case.get("legs", 1))
    if case["mode"] == "direct":
        data = B["data"]
        init_state = None
        step_draw = jax.jit(lambda g: g.get_batch())
        for leg in range(legs):
            # every solve() call starts with init_rar on the generator it is given (the one returned by the previous call)
            data, t_fn, f_fn = init_rar(data)
            if init_state is None:
                init_state = state_of(data, pk)
            for i in range(N_ITERS):
                nd = int(rng.integers(0, case["draws"] + 1)) if case["draws"] else 0
                for _ in range(nd):
                    before = state_of(data, pk)
                    data, _b = step_draw(data)
                    hist.append(dict(i=i, leg=leg, kind="draw", before=before, after=state_of(data, pk), events=[]))
                before = state_of(data, pk)
                _, _, data = trigger_rar(i, B["loss"], B["params"], data, t_fn, f_fn)
                ev = drain_sink()
                hist.append(dict(i=i, leg=leg, kind="trigger", before=before, after=state_of(data, pk), events=ev))
        return dict(history=hist, built=B, init=init_state, final=state_of(data, pk))
    # ---- end to end: zero learning rate keeps the parameters constant; a second leg resumes with the returned generator
    init_state = state_of(B["data"], pk)
    data = B["data"]
    for leg in range(legs):
        before = state_of(data, pk)
        kw = {}
        if case.get("with_validation"):
            # refinement must not depend on the other options of solve(): a validation module (never stopping) and, for
            # every other such case, the default printing path
            pk_ = B["pk"]
            vd = {"ode": dict(kind="ode", key=5, nt=4, bt=2, tmin=0.0, tmax=1.5),
                  "statio": dict(kind="statio", key=5, n=4, b=2, dim=B["d"], min_pts=B["mins"], max_pts=B["maxs"], nb=None, bb=None),
                  "nonstatio": dict(kind="nonstatio", key=5, n=4, b=2, dim=B["d"], min_pts=B["mins"], max_pts=B["maxs"], nb=None,
                                    bb=None, nt=4, bt=2, tmin=0.0, tmax=1.5, cartesian=True)}[pk_]
            from jinns.validation import ValidationLoss
            kw["validation"] = ValidationLoss(loss=B["loss"], validation_data=gens.make_generator(vd), call_every=2,
                                              early_stopping=False, patience=3)
        verb = dict(print_loss_every=5) if case.get("with_validation") and case["seed"] % 2 else dict(verbose=False)
        out = jinns.solve(n_iter=N_ITERS, init_params=B["params"], data=data, loss=B["loss"],
                          optimizer=optax.sgd(0.0), **verb, **kw)
        data = out[3]
        ev = drain_sink()
        hist.append(dict(i=None, leg=leg, kind="solve", before=before, after=state_of(data, pk), events=ev))
    return dict(history=hist, built=B, init=init_state, final=state_of(data, pk))


class RarAutomaton:
    """DESIGN Appendix A.3"""

    def __init__(self, case, pk):
        self.start, self.every = case["start"], case["every"]
        self.streams = {}
        if pk in ("ode", "nonstatio"):
            self.streams["times"] = [case["nt_start"], case["sel_t"], case["nt"]]
        if pk in ("statio", "nonstatio"):
            self.streams["omega"] = [case["n_start"], case["sel_x"], case["n"]]
        self.J = 0
        self.steps_at = []

    def fits(self):
        return all(a + s <= N for a, s, N in self.streams.values())

    def tick(self, i):
        due = i >= self.start and (i - self.start) % self.every == 0
        if due and self.fits():
            self.J += 1
            for v in self.streams.values():
                v[0] += v[1]
            self.steps_at.append(i)
            return True
        return False

    def active(self, s):
        return self.streams[s][0]


def sq_residual(B, z):
    if B.get("sys") is not None:
        sp = B["sys"]
        return float(sum(np.sum(sp.specs[e].resid(sp.nets, z, EQ0) ** 2) for e in sp.eqnames))
    if B.get("het") is not None:
        return float(np.sum(B["spec"].resid(B["net"], z, EQ0, theta=0.8 + float(np.dot(B["het"], np.asarray(z, float)))) ** 2))
    return float(np.sum(B["spec"].resid(B["net"], z, EQ0) ** 2))
