"""Reference training loop (DESIGN Appendix A.1): plain Python, one real call at a time.

It uses the real loss, generators, optimizer and validation module; what is compared with
jinns.solve is the *orchestration*: which batch meets which parameters, what is stored at
index i, when the loop stops, which parameters are returned.
"""
import numpy as np


def has_nan(tree):
    import jax
    import jax.numpy as jnp

    return any(bool(jnp.any(jnp.isnan(x))) for x in jax.tree_util.tree_leaves(tree))


def ref_loop(n, params, data, loss, opt, opt_state=None, param_data=None, obs_data=None,
             tracked=None, prime=1, validation=None, vg_cache=None):
    import jax
    import jax.numpy as jnp
    import optax
    from jinns.data import append_obs_batch, append_param_batch

    if opt_state is None:
        opt_state = opt.init(params)
    st = {"data": data, "param": param_data, "obs": obs_data}

    def draw():
        st["data"], batch = st["data"].get_batch()
        if st["param"] is not None:
            st["param"], pb = st["param"].get_batch()
            batch = append_param_batch(batch, pb)
        if st["obs"] is not None:
            st["obs"], ob = st["obs"].get_batch()
            batch = append_obs_batch(batch, ob)
        return batch

    for _ in range(prime):
        draw()
    if vg_cache is not None and "vg" in vg_cache:
        vg = vg_cache["vg"]
    else:
        vg = jax.jit(jax.value_and_grad(lambda p, l, b: l(p, b), has_aux=True))
        if vg_cache is not None:
            vg_cache["vg"] = vg
    hist = np.zeros(n)
    hist_terms = None
    tracked_hist = None
    crit = np.zeros(n) if validation is not None else None
    last_ok = params
    best = params
    n_done = 0
    val_calls = []
    batches_seen = []
    for i in range(n):
        batch = draw()
        (L, terms), g = vg(params, loss, batch)
        upd, opt_state = opt.update(g, opt_state, params)
        new = optax.apply_updates(params, upd)
        hist[i] = float(L)
        if hist_terms is None:
            hist_terms = {k: np.zeros(n) for k in terms}
        for k, v in terms.items():
            hist_terms[k][i] = float(v)
        if tracked is not None:
            sel = jax.tree_util.tree_map(lambda t, p: (np.asarray(p) if t is not None else None), tracked, new,
                                         is_leaf=lambda x: x is None)
            if tracked_hist is None:
                tracked_hist = jax.tree_util.tree_map(
                    lambda s: (np.zeros((n,) + s.shape) if s is not None else None), sel, is_leaf=lambda x: x is None)
            fl_h = jax.tree_util.tree_leaves(tracked_hist)
            fl_s = jax.tree_util.tree_leaves(sel)
            for h, s in zip(fl_h, fl_s):
                h[i] = s
        nan_now = has_nan(new)
        if not nan_now:
            last_ok = new
        params = new
        stop = False
        if validation is not None:
            if i % int(validation.call_every) == 0:
                validation, stop, c, improve = validation(new)
                stop = bool(stop)
                crit[i] = float(c)
                val_calls.append(i)
                if bool(improve):
                    best = new
            else:
                crit[i] = crit[i - 1]
        n_done = i + 1
        if nan_now or stop:
            break
    return dict(params=last_ok, hist=hist, hist_terms=hist_terms or {}, data=st["data"], param_data=st["param"],
                obs_data=st["obs"], opt_state=opt_state, tracked=tracked_hist, crit=crit, best=best,
                n_done=n_done, val_calls=val_calls, validation=validation, final_params=params)


def leaves(tree):
    import jax

    return [np.asarray(x) for x in jax.tree_util.tree_leaves(tree)]


def tree_close(a, b, rtol=1e-9, atol=1e-11):
    """-> (ok, description of the first difference)"""
    la, lb = leaves(a), leaves(b)
    if len(la) != len(lb):
        return False, "different number of leaves (%d vs %d)" % (len(la), len(lb))
    for k, (x, y) in enumerate(zip(la, lb)):
        if x.shape != y.shape:
            return False, "leaf %d: shape %s vs %s" % (k, x.shape, y.shape)
        if x.dtype.kind in "fc":
            xn, yn = np.isnan(x), np.isnan(y)
            if np.any(xn != yn):
                return False, "leaf %d: NaN pattern differs" % k
            xi, yi = np.isinf(x), np.isinf(y)
            if np.any(xi != yi) or np.any(x[xi] != y[xi]):
                return False, "leaf %d: infinite entries differ" % k
            m = ~xn & ~xi
            if np.any(np.abs(x[m] - y[m]) > atol + rtol * np.abs(y[m])):
                j = int(np.argmax(np.abs(np.where(m, x - y, 0))))
                return False, "leaf %d: %r vs %r at flat index %d" % (k, x.reshape(-1)[j], y.reshape(-1)[j], j)
        else:
            if not np.array_equal(x, y):
                return False, "leaf %d (dtype %s): %s vs %s" % (k, x.dtype, x.reshape(-1)[:4], y.reshape(-1)[:4])
    return True, ""
