"""Training programs for the solver checks (C07, C18, C19): real losses on analytic networks,
real generators, optax optimizers.  A program description is a JSON dict."""
import numpy as np

from . import gens


def make_optimizer(name, lr=1e-3):
    import optax

    if name == "sgd":
        return optax.sgd(lr)
    if name == "adam":
        return optax.adam(lr)
    if name == "chain":
        sched = optax.exponential_decay(lr, transition_steps=3, decay_rate=0.7)
        return optax.chain(optax.clip_by_global_norm(5.0), optax.adam(sched))
    raise KeyError(name)


def build_program(prog, rng):
    """prog: dict(kind, n, b, [nt, bt, nb, bb], aux in {none,param,obs,both}, seed)
    -> dict(loss, params, data, param_data, obs_data, problem)"""
    import jax
    import jax.numpy as jnp
    import jinns

    from .checks.c12 import Problem
    from .checks.c13 import SystemProblem

    kind, aux, seed = prog["kind"], prog.get("aux", "none"), prog["seed"]
    want_p, want_o = aux in ("param", "both"), aux in ("obs", "both")
    key = seed % 99991
    if kind in ("ode", "sys_ode"):
        data = gens.make_generator(dict(kind="ode", key=key, nt=prog["n"], bt=prog["b"], tmin=0.0, tmax=1.0))
        bsize, D = prog["b"], 1
    elif kind == "statio2":
        data = gens.make_generator(dict(kind="statio", key=key, n=prog["n"], b=prog["b"], dim=2, min_pts=[-1.0, 0.0],
                                        max_pts=[1.0, 2.0], nb=4 * prog.get("per", prog["b"] + 1), bb=prog["b"]))
        bsize, D = prog["b"], 2
    elif kind == "nonstatio1":
        with_border = not want_p
        data = gens.make_generator(dict(kind="nonstatio", key=key, n=prog["n"], b=prog["b"], dim=1, min_pts=[-1.0],
                                        max_pts=[1.0], nb=2 if with_border else None, bb=1 if with_border else None,
                                        nt=prog["nt"], bt=prog["bt"], tmin=0.0, tmax=1.0, cartesian=True))
        bsize, D = prog["b"] * prog["bt"], 2
    elif kind == "spinn1":
        # separable network, 1-D Burgers, paired (non-cartesian) batches as recommended for SPINNs
        data = gens.make_generator(dict(kind="nonstatio", key=key, n=prog["n"], b=prog["b"], dim=1, min_pts=[-1.0],
                                        max_pts=[1.0], nb=2, bb=1, nt=prog["n"], bt=prog["b"], tmin=0.0, tmax=1.0,
                                        cartesian=False))
        return _spinn_program(prog, rng, data)
    elif kind == "hyper":
        data = gens.make_generator(dict(kind="ode", key=key, nt=prog["n"], bt=prog["b"], tmin=0.0, tmax=1.0))
        return _hyper_program(prog, rng, data)
    else:
        raise KeyError(kind)
    if kind == "sys_ode":
        sp = SystemProblem(dict(kind="ode", d=0, E=2, U=2, names=["a", "b"], eqnames=["e1", "e2"], weights="scalar",
                                parts=["ic"] + (["obs"] if want_o else []), B=bsize, seed=seed), rng)
        sp.make_data(bsize)
        loss = sp.loss()
        params = sp.params
        problem = sp
        names = ["a", "b"]
    else:
        pk = {"ode": "ode", "statio2": "statio", "nonstatio1": "nonstatio"}[kind]
        parts = {"ode": ["ic"], "statio2": ["boundary"], "nonstatio1": ["ic"] + (["boundary"] if not want_p else [])}[kind]
        if want_o:
            parts = parts + ["obs"]
        pcase = dict(kind=pk, d={"ode": 0, "statio2": 2, "nonstatio1": 1}[kind], n_out=1, ncomp=2, seed=seed)
        if prog.get("inf_placeholder"):
            # an equation parameter that is +inf and never used (e.g. an "unbounded" capacity): finite everywhere else
            pcase["extra_eq"] = {"cap": float("inf")}
        pr = Problem(pcase, rng, parts, reads=("theta", "phi"))
        loss = pr.loss(dk="both")
        params = pr.params
        problem = pr
        names = None
    param_data = obs_data = None
    if want_p:
        param_data = jinns.data.DataGeneratorParameter(jax.random.PRNGKey(key + 1), prog.get("np", 2 * bsize + 1), bsize,
                                                       param_ranges={"kappa": (-1.0, -0.2)})
    if want_o:
        n_obs = prog.get("nobs", 2 * bsize + 1)
        if names is None:
            obs_data = jinns.data.DataGeneratorObservations(
                jax.random.PRNGKey(key + 2), bsize, jnp.asarray(rng.uniform(0, 1, (n_obs, D))),
                jnp.asarray(rng.uniform(-1, 1, (n_obs, 1))))
        else:
            obs_data = jinns.data.DataGeneratorObservationsMultiPINNs(
                bsize, {n: jnp.asarray(rng.uniform(0, 1, (n_obs, D))) for n in names},
                {n: jnp.asarray(rng.uniform(-1, 1, (n_obs, problem.obs_val[n].shape[1]))) for n in names},
                key=jax.random.PRNGKey(key + 2))
    return dict(loss=loss, params=params, data=data, param_data=param_data, obs_data=obs_data, problem=problem)


def _spinn_program(prog, rng, data):
    import jax.numpy as jnp
    import jinns
    from jinns.parameters import Params

    from . import fields, nets

    sn = nets.SNet(fields.SepField(prog["seed"], 2, 2, 1), "nonstatio_PDE")
    params = Params(nn_params=sn.nn_params(), eq_params={"nu": jnp.asarray(0.3)})
    dk = jinns.parameters.DerivativeKeysPDENonStatio.from_str(params, dyn_loss="both")
    loss = jinns.loss.LossPDENonStatio(u=sn.spinn(), dynamic_loss=jinns.loss.BurgerEquation(Tmax=1.0),
                                       initial_condition_fun=lambda x: jnp.sin(x),
                                       omega_boundary_fun=lambda t, dx: 0.0, omega_boundary_condition="dirichlet",
                                       derivative_keys=dk, params=params)
    return dict(loss=loss, params=params, data=data, param_data=None, obs_data=None, problem=None)


def _hyper_program(prog, rng, data):
    import equinox as eqx
    import jax
    import jax.numpy as jnp
    import jinns
    from jinns.parameters import Params

    from . import eqs

    lst = ((eqx.nn.Linear, 1, 4), (jax.nn.tanh,), (eqx.nn.Linear, 4, 1))
    u = jinns.utils.create_HYPERPINN(jax.random.PRNGKey(prog["seed"] % 997), lst, "ODE", ["kappa"], 1, 0,
                                     eqx_list_hyper=((eqx.nn.Linear, 1, 3), (jax.nn.tanh,), (eqx.nn.Linear, 3, 1)))
    params = Params(nn_params=u.init_params(), eq_params={"theta": jnp.asarray([0.8]), "kappa": jnp.asarray([-0.5])})
    spec = eqs.ResidSpec(prog["seed"], 1, 1, 1)
    dk = jinns.parameters.DerivativeKeysODE.from_str(params, dyn_loss="both", initial_condition="both")
    loss = jinns.loss.LossODE(u=u, dynamic_loss=spec.module("ode"), initial_condition=(0.0, jnp.asarray([0.2])),
                              derivative_keys=dk, params=params)
    pdata = jinns.data.DataGeneratorParameter(jax.random.PRNGKey(prog["seed"] % 991), 2 * prog["b"] + 1, prog["b"],
                                              param_ranges={"kappa": (-1.0, -0.2)})
    return dict(loss=loss, params=params, data=data, param_data=pdata, obs_data=None, problem=None)


def tracked_spec(params, what):
    """what in none / theta / nn_leaf  -> tracked_params tree (None where not tracked)"""
    import equinox as eqx
    import jax

    if what == "none":
        return None
    t = jax.tree_util.tree_map(lambda p: None, params)
    if what == "theta":
        k0 = "theta" if "theta" in params.eq_params else sorted(params.eq_params)[0]
        return eqx.tree_at(lambda p: p.eq_params[k0], t, True, is_leaf=lambda x: x is None)
    if what == "nn_leaf":
        if isinstance(params.nn_params, dict):
            k = sorted(params.nn_params)[0]
            return eqx.tree_at(lambda p: p.nn_params[k].C0, t, True, is_leaf=lambda x: x is None)
        return eqx.tree_at(lambda p: p.nn_params.C0, t, True, is_leaf=lambda x: x is None)
    raise KeyError(what)
