"""Process environment of a check worker: which repository is under test, x64, seeds.

Imported first by every worker.  It puts ``$JINNS_VERIF_REPO`` (default ``/repo``) in
front of ``sys.path`` so that ``import jinns`` resolves to the *current working tree* of
that directory (PYTHONPATH wins over the editable-install finder), switches the guarded
repository hook on, and asserts after import that the module really came from there.
"""
import os
import sys

VERIF_DIR = os.path.dirname(os.path.dirname(os.path.abspath(__file__)))
REPO = os.path.abspath(os.environ.get("JINNS_VERIF_REPO", "/repo"))
DEPS = os.path.join(VERIF_DIR, ".deps")
GUARD = "JINNS_VERIF"


def child_env(x64=True, threads=1):
    """Environment for a worker subprocess (deterministic, CPU only, hooks on)."""
    env = dict(os.environ)
    env["PYTHONHASHSEED"] = "0"
    env["PYTHONDONTWRITEBYTECODE"] = "1"
    env["JAX_PLATFORMS"] = "cpu"
    env[GUARD] = "1"
    env["JINNS_VERIF_REPO"] = REPO
    env["JV_X64"] = "1" if x64 else "0"
    env["PYTHONPATH"] = os.pathsep.join([REPO, VERIF_DIR, DEPS])
    env["OMP_NUM_THREADS"] = str(threads)
    env["OPENBLAS_NUM_THREADS"] = str(threads)
    env["MKL_NUM_THREADS"] = str(threads)
    env["XLA_FLAGS"] = (
        "--xla_cpu_multi_thread_eigen=false intra_op_parallelism_threads=%d" % threads
    )
    env["TF_CPP_MIN_LOG_LEVEL"] = "3"
    env["PYTHONWARNINGS"] = "ignore"
    return env


def setup_worker():
    """Called inside the worker before anything imports jax/jinns."""
    for p in (DEPS, VERIF_DIR, REPO):
        if p in sys.path:
            sys.path.remove(p)
        sys.path.insert(0, p)
    os.environ.setdefault(GUARD, "1")
    import warnings

    warnings.filterwarnings("ignore")
    import jax

    jax.config.update("jax_enable_x64", os.environ.get("JV_X64", "1") == "1")
    jax.config.update("jax_platforms", "cpu")
    import jinns

    here = os.path.abspath(jinns.__file__)
    if not here.startswith(REPO + os.sep):
        raise RuntimeError(
            "jinns was imported from %s, not from the tree under test %s" % (here, REPO)
        )
    return jinns
