"""Regenerates /verif/MANIFEST.json from the per-property table below.
   python -m jv.manifest_gen          (run from /verif)
Only properties whose check module exists are claimed; the rest are listed under
not_applicable with the reason 'check not built yet' (kept current while building).
"""
import json
import os

VERIF = os.path.dirname(os.path.dirname(os.path.abspath(__file__)))

TABLE = {
    "C01": dict(
        technique="runtime oracle monitor: real operators on analytic fields vs closed-form derivatives (numpy)",
        level="exploration",
        text="Every operator value returned by the real reverse- and forward-mode operators is compared with "
             "hand-derived closed-form values on random smooth fields and on the exhaustive monomial basis "
             "(degree<=3) for d=1..4, with/without time; held on the executions observed, not a proof.",
        note="closed-form derivatives (self-tested against finite differences); float64; monomial basis "
             "determines constant-coefficient operators of order<=2 only",
        ref="DESIGN.md §4 C01"),
    "C02": dict(
        technique="runtime oracle monitor: real DynamicLoss.evaluate vs documented differential expression from closed-form derivatives",
        level="exploration",
        text="The residual returned by the real (decorated) evaluate of the six built-in equations is compared with "
             "the documented expression evaluated in numpy from hand-derived derivatives of analytic fields, in "
             "parameter regimes where each term in turn dominates (so a missing Tmax, a wrong sign or swapped "
             "parameters cannot hide), for Tmax in {1, 0.37, 10}, every GLV key permutation and both eq_params "
             "layouts; exact solutions (Burgers x/(c+Tmax t), Fisher constant and logistic states, OU stationary "
             "Gaussian, GLV exponential and equilibria, divergence-free field, Poiseuille flow) must give ~0.",
        note="GLV read in log form (see DESIGN §5); abstract FPE with user drift/diffusion other than OU not covered",
        ref="DESIGN.md §4 C02"),
    "C03": dict(
        technique="runtime oracle + metamorphic monitor on (total, terms) of the real losses with harness-written equations",
        level="exploration",
        text="For ODE / stationary / non-stationary losses with pointwise and separable networks and every subset of "
             "optional parts configured: total == sum of returned terms, unconfigured terms are exactly 0.0, the "
             "dynamic term equals the numpy batch mean of the weighted squared residual components, and the real "
             "values satisfy linearity in the weight (scalar, per component), permutation invariance and the "
             "two-halves identity; compiled and eager.",
        note="user equations with an explicit component axis; separable networks average over the tensor grid",
        ref="DESIGN.md §4 C03"),
    "C05": dict(
        technique="runtime oracle monitor: initial-condition / normalisation / observation terms vs numpy definitions",
        level="exploration",
        text="The three terms of the real single losses are compared with numpy formulas on analytic fields: ODE "
             "initial state at t0 != 0 (with parameter batch), PDE initial functions returning (k,) or a scalar, "
             "Monte-Carlo normalisation (cases built so that mean-of-squares and square-of-mean differ), observation "
             "tables through the real loader with slices and observed parameters read by the network's transforms.",
        note="scalar u for the normalisation term; per-component weights only for PDE initial condition and observations",
        ref="DESIGN.md §4 C05"),
    "C04": dict(
        technique="runtime oracle monitor: real boundary term vs numpy formula with closed-form normal derivatives; facet measured on the points",
        level="exploration",
        text="terms['boundary_loss'] of the real stationary / non-stationary losses is compared with the numpy "
             "per-facet formula on analytic fields (closed-form gradient . outward normal) for Dirichlet and Neumann "
             "conditions, global and per-facet specifications (every subset of facets None), component selections, "
             "f returning (), (1,), (k,), 1..5 time points, batches from the real generators and hand-built ones.",
        note="outward normals as stated in the property; scalar boundary weight; pointwise networks (separable ones via C11)",
        ref="DESIGN.md §4 C04"),
    "C06": dict(
        technique="runtime gradient-routing monitor: jacrev of (total, terms) under enumerated masks vs per-term gradients of the all-selected loss",
        level="exploration",
        text="For ODE / stationary / non-stationary losses where every (term, group) pair has a non-zero gradient, the "
             "total gradient and every per-term gradient are observed for boolean-tree masks passed as traced data "
             "(ODE 2^9 exhaustive; stationary 2^12 and non-stationary 2^15 exhaustive in the thorough tier, random + "
             "single-bit/all-but-one in quick), as Python bools with a fresh trace, through from_str (3^k forms) and "
             "the defaults; 2-unknown systems with random per-unknown masks. Unselected pairs must contribute exactly 0 "
             "and loss values must not depend on the mask.",
        note="per-term reference gradients come from the all-selected loss (term values are C03-C05's business)",
        ref="DESIGN.md §4 C06"),
    "C07": dict(
        technique="history + executable model: the 9-tuple returned by the compiled solve() vs a plain-Python reference loop on the same program",
        level="exploration",
        text="Training programs (4 loss kinds x 3 optimizers incl. a chained schedule x batch sizes dividing / not dividing "
             "the data, crossing >= 2 epoch boundaries x auxiliary generators x tracked specifications x resumed runs) are "
             "run through the real jinns.solve and through a reference loop that performs one real call at a time; loss "
             "history, per-term histories, tracked values (after the update), final parameters, optimizer state and the "
             "advanced generator (exactly) are compared entry by entry.",
        note="number of priming batches inferred once per worker (0 or 1) and required to stay the same; rtol 1e-6 because optax schedules run in float32",
        ref="DESIGN.md §4 C07, Appendix A.1"),
    "C08": dict(
        technique="runtime invariant monitor on generator stores and on every batch of long get_batch histories",
        level="exploration",
        text="Counts, shapes, closed-box membership (bounds cast to the array dtype) and facet structure are "
             "asserted on the stores of thousands of constructed generators (all n in 1..200 for the 1-D grid in "
             "the thorough tier, 6 boxes, float32 and float64) and on every batch of histories crossing >= 3 "
             "reshuffles of every stream.",
        note="declared shapes taken from the class docstrings / batch annotations; d-dimensional grid only for n=k**d",
        ref="DESIGN.md §4 C08"),
    "C09": dict(
        technique="online history checker (epoch automaton) over recorded get_batch sequences",
        level="exploration",
        text="Every stream (times, interior, each border facet, observation rows, each parameter key) of every "
             "history is fed to an observational epoch checker: store multiset invariant, batches are stored rows, "
             "no point twice per epoch when b|n, minimal cover otherwise, order changes between epochs. The small "
             "scope n<=8 (12 thorough), b<=n is enumerated exhaustively, compiled and eager.",
        note="stored rows pairwise distinct; fixed-size batches so an epoch has ceil(n/b) batches; refinement-enabled generators only with b dividing the active count and without refinement steps (steps: C16/C17); multi-network observation loaders row by row against the user's tables",
        ref="DESIGN.md §4 C09, Appendix A.2"),
    "C10": dict(
        technique="runtime oracle monitor: wrappers from the real create_* functions vs independent numpy forward passes",
        level="exploration",
        text="PINN / shared-output PINNs / SPINN / HYPERPINN objects created by the real factory functions on random "
             "architectures are evaluated and compared with forward passes written in numpy (layer walk, transforms "
             "in the stated order, explicit sum_r prod_d contraction per output slot, manual split of the "
             "hyper-network output in parameter-leaf order; scalar, vector and matrix-valued hyper-parameters); trailing axis, scalar vs (1,) time and bare parameters "
             "are asserted on every call.",
        note="'output slice' read as the wrapper's output_slice; shared-output networks have >= 2 outputs",
        ref="DESIGN.md §4 C10"),
    "C11": dict(
        technique="differential runtime monitor: forward-mode separable path vs reverse-mode pointwise twin (closed forms for attribution)",
        level="exploration",
        text="The same function is wrapped in the real SPINN and in a pointwise PINN built from the same leaves "
             "(analytic separable fields and random create_SPINN networks); *_fwd vs *_rev operators, the five "
             "built-in PDE residuals and the boundary / initial-condition / normalisation terms are compared at "
             "every grid index with all coordinates different; closed forms name the side that is wrong.",
        note="observation term unsupported for separable networks; boundary terms d<=2",
        ref="DESIGN.md §4 C11"),
    "C12": dict(
        technique="runtime differential monitor: batched evaluation vs Python loop of unbatched real evaluations, plus numpy formulas",
        level="exploration",
        text="Losses (ODE, stationary, non-stationary, 2-unknown systems) are evaluated on batches built with the real "
             "append_param_batch for every non-empty subset of three equation parameters (one read by the network "
             "input transform, one by the equation, one only passed through) and compared term by term with the mean "
             "over rows of the unbatched real loss and with numpy formulas (Dirichlet and Neumann boundary terms); gradients w.r.t. unbatched keys and the "
             "network likewise; heterogeneity maps (none/one/all/missing/None entries) are checked on the equation "
             "value and on the other terms staying unchanged; the caller's parameters are compared before/after.",
        note="(B,1) parameter batches; boundary/observation/normalisation inputs have B rows; non-stationary normalisation pairs time i with row i",
        ref="DESIGN.md §4 C12"),
    "C13": dict(
        technique="runtime oracle monitor: system loss vs numpy dynamic-term formula and per-unknown single-loss formulas; 1x1 vs plain loss",
        level="exploration",
        text="SystemLossODE / SystemLossPDE with 1..3 equations x 1..3 unknowns, arbitrary key names, scalar / dict / "
             "default weights, per-unknown initial, boundary, normalisation and observation parts (hand-built and from "
             "the real multi-network loader) are compared term by term with the weighted composition; harness-written "
             "equations weight time 7x more than space so the argument order shows in the value; 1x1 systems are "
             "compared with the real plain loss.",
        note="documented weight forms must be accepted; equations use the first output of each network",
        ref="DESIGN.md §4 C13"),
    "C14": dict(
        technique="runtime structural monitor: factors recovered from each batch must rebuild it and lie in the stores",
        level="exploration",
        text="For every batch of 20-batch histories (all three streams reshuffling at different rates) the interior "
             "and each border facet must equal the time-major product (or the pairing) of a temporal batch and a "
             "spatial batch that are rows of the generator's stores, with one temporal factor per call.",
        note="time interval disjoint from the spatial box; one temporal batch per call shared by interior and facets",
        ref="DESIGN.md §4 C14"),
    "C15": dict(
        technique="runtime alignment monitor with row-tagged tables over multi-epoch get_batch histories",
        level="exploration",
        text="User tables carry a row tag in every cell; every row of every returned batch (inputs, values, each "
             "observed parameter; per network for the multi-network loader) must come from one original row, "
             "parameter samples from their own range or table (table first, both documented shapes accepted).",
        note="'empty entry' read as None / {} / absent; tables disjoint from ranges so the source of a sample is unambiguous",
        ref="DESIGN.md §4 C15"),
    "C16": dict(
        technique="trace specification checker: RAR counter automaton over directly driven trigger_rar histories and hook events of end-to-end runs",
        level="exploration",
        text="Schedules (start 0..4, period 1..4, initial and total counts for time and space equal or not, capacity reached "
             "after 0..3 steps or never, selected 1..4) are driven for 14 iterations both by calling the real init_rar / "
             "trigger_rar like solve does (reading the mask and step counter after every call, with batch draws in "
             "between) and end to end through jinns.solve with the guarded hook; step iterations, #{p>0} per stream and "
             "capacity are compared with a 10-line automaton.",
        note="first step at the start iteration (k >= 0), as the repository's own --all_tests RAR test asserts; cartesian non-stationary only",
        ref="DESIGN.md §4 C16, Appendix A.3"),
    "C17": dict(
        technique="hooked-state monitor: candidates from the guarded hook, residuals recomputed in numpy, store/mask diffs around every step and batch draw",
        level="exploration",
        text="For every refinement step of the C16-style histories the candidates reported by the guarded hook are ranked "
             "with squared residuals recomputed in numpy from the analytic field; the points that became active must be "
             "exactly the top candidates (top space-time pairs for product domains), candidates must lie in the domain, "
             "only zero-probability slots may change and every previously active point must stay active, also across the "
             "reshuffles forced by batch draws between steps.",
        note="hook residuals/indices are not trusted; near-tie steps skipped and counted",
        ref="DESIGN.md §4 C17"),
    "C18": dict(
        technique="fault enumeration through public extension points (optax transformation with step counter, user equation), return value vs reference loop",
        level="fault_enumeration",
        text="A NaN is injected at every iteration k of a 6-iteration run and at every origin (loss value via a user "
             "equation keyed on a tick parameter, gradient of a network leaf, gradient of an equation parameter, "
             "optimizer update), for sgd/adam and ODE/stationary losses, plus fault-free controls, double faults and "
             "sequences in which only the loss VALUE is NaN (finite gradient, training must go on) before a real fault; the "
             "returned parameters must be those held just before iteration k (NaN-free), histories up to k those of the "
             "reference loop, later entries untouched.",
        note="quick tier enumerates k x origin for one loss/optimizer pair (rotating with VERIF_SEED), thorough for all four",
        ref="DESIGN.md §4 C18"),
    "C19": dict(
        technique="trace checker: scripted validation module logging through jax.debug.callback + validation automaton + reference loop",
        level="exploration",
        text="(a) every script of per-call (stop, improve) outcomes up to length 3 (4 thorough) x period is run inside the real "
             "solve with a harness-written validation module that logs (call index, digest of the parameters it receives): "
             "call schedule, post-update parameters, criterion carried forward, stop right after the first request and best "
             "parameters are checked; (b) the real ValidationLoss is driven directly over all 3^5 value sequences (ties "
             "included) x patience x enabled; (c) ValidationLoss inside solve with its own generators vs the reference loop.",
        note="after the first stop request of a directly driven ValidationLoss the stop output is not checked",
        ref="DESIGN.md §4 C19, Appendix A.4"),
    "C20": dict(
        technique="runtime purity monitor: deep argument snapshots before/after, eager vs jit vs value_and_grad vs disable_jit, jax.checking_leaks()",
        level="exploration",
        text="For the five loss classes x {plain, +parameter batch, +observations, both} x {PINN, SPINN, HYPERPINN} and "
             "every generator kind at {fresh, mid-epoch, epoch end}: deep snapshots (leaves and every dict reachable "
             "through static fields, with ids) of all arguments are compared before/after eager and compiled calls; "
             "results are compared across eager / jit / value_and_grad primal / op-by-op interpretation and across "
             "repeated calls in three call orders, inside JAX's tracer-leak checker; two loaders of one configuration are "
             "drawn under jit in one process.",
        note="cross-mode comparison at rtol 1e-12, same-mode repetition bit-exact",
        ref="DESIGN.md §4 C20"),
}


def main():
    props = [json.loads(l)["id"] for l in open(os.path.join(VERIF, "properties.jsonl"))]
    checks, na = [], []
    for p in props:
        have = os.path.exists(os.path.join(VERIF, "jv", "checks", p.lower() + ".py"))
        if have and p in TABLE:
            t = TABLE[p]
            checks.append({
                "property_id": p,
                "quick_cmd": "./check %s --tier quick" % p,
                "thorough_cmd": "./check %s --tier thorough" % p,
                "evidence_file": "/verif/evidence/%s.json" % p,
                "replay_cmd_template": "./check %s --replay {path}" % p,
                "engine": "jv",
                "level_claimed": {"category": t["level"], "text": t["text"], "design_ref": t["ref"]},
                "level_note": t["note"],
                "technique": t["technique"],
            })
        else:
            na.append({"property_id": p, "reason": t_na(p)})
    man = {
        "version": 1,
        "setup_cmd": "sh ./setup.sh",
        "hooks": {
            "guard": "JINNS_VERIF",
            "enable": "environment variable JINNS_VERIF=1 set by ./check for every worker process "
                      "(jinns is pure Python: the working tree of /repo is imported directly, nothing to build)",
            "baseline_off_cmd": "cd /repo && env -u JINNS_VERIF /venv/bin/python -m pytest -ra -q "
                                "-p no:cacheprovider --timeout=900 --continue-on-collection-errors",
            "source_commits": HOOK_COMMITS,
            "add_only": True,
        },
        "engines": [{
            "name": "jv",
            "path": "/verif/jv",
            "serves_properties": [c["property_id"] for c in checks],
            "kind_free_text": "runtime monitoring harness: boundary recorders, icontract post-conditions on the real "
                              "jinns methods, reference-model checkers over recorded histories, one guarded hook, "
                              "fault injection through public extension points",
        }],
        "checks": checks,
        "notes": "exit 0 = held on everything observed; exit 1 = VIOLATION line; exit 2 = INCONCLUSIVE "
                 "(watchdog / harness error / deciding monitor observed nothing). Checks import jinns from "
                 "$JINNS_VERIF_REPO (default /repo) working tree in fresh processes.",
        "not_applicable": na,
    }
    with open(os.path.join(VERIF, "MANIFEST.json"), "w") as f:
        json.dump(man, f, indent=1)
    print("claimed:", [c["property_id"] for c in checks])
    print("not claimed:", [n["property_id"] for n in na])


HOOK_COMMITS = ["36d9124"]


def t_na(p):
    return ("check not built yet (work in progress; runtime monitoring applies to this property, "
            "see DESIGN.md §4 %s)" % p)


if __name__ == "__main__":
    main()
