"""Per-case recorder shared by all checks, and small numeric helpers."""
import json
import math
import os

import numpy as np


class Rec:
    """What one executed case observed.  Serialised to one JSON line by the worker."""

    def __init__(self, case):
        self.case = case
        self.counters = {}
        self.violations = []
        self.unsupported = []
        self.inconclusive = []
        self.keys = set()  # distinct non-trivial sub-cases observed
        self.sample = None

    def count(self, name, n=1):
        self.counters[name] = self.counters.get(name, 0) + int(n)

    def nontrivial(self, key):
        self.keys.add(str(key))

    def violation(self, sig, what, **witness):
        if len(self.violations) < 12:
            self.violations.append(
                {"sig": sig, "what": what, "witness": jsonable(witness)}
            )
        self.count("violations_raw")

    def unsupp(self, reason):
        self.unsupported.append(str(reason)[:200])
        self.count("unsupported")

    def inconcl(self, reason):
        self.inconclusive.append(str(reason)[:2000])

    def set_sample(self, **kw):
        if self.sample is None:
            self.sample = jsonable(kw)

    def to_json(self):
        return {
            "case": jsonable(self.case),
            "counters": self.counters,
            "violations": self.violations,
            "unsupported": self.unsupported,
            "inconclusive": self.inconclusive,
            "keys": sorted(self.keys),
            "sample": self.sample,
        }


def jsonable(x, depth=0):
    if depth > 8:
        return str(x)[:200]
    if x is None or isinstance(x, (bool, int, str)):
        return x
    if isinstance(x, float):
        if math.isnan(x) or math.isinf(x):
            return repr(x)
        return x
    if isinstance(x, (np.integer,)):
        return int(x)
    if isinstance(x, (np.floating,)):
        return jsonable(float(x))
    if isinstance(x, (np.bool_,)):
        return bool(x)
    if isinstance(x, dict):
        return {str(k): jsonable(v, depth + 1) for k, v in x.items()}
    if isinstance(x, (list, tuple, set)):
        return [jsonable(v, depth + 1) for v in x]
    if hasattr(x, "shape") and hasattr(x, "dtype"):
        a = np.asarray(x)
        if a.size <= 64:
            return jsonable(a.tolist(), depth + 1)
        return {
            "shape": list(a.shape),
            "dtype": str(a.dtype),
            "head": jsonable(a.reshape(-1)[:16].tolist(), depth + 1),
        }
    if isinstance(x, slice):
        return "slice(%s,%s,%s)" % (x.start, x.stop, x.step)
    return str(x)[:300]


def close(a, b, rtol=1e-8, atol=1e-10):
    if os.environ.get("JV_X64", "1") == "0":
        # JAX's default 32-bit mode: the real code computes in float32, the oracle in float64
        rtol, atol = max(rtol, 5e-4), max(atol, 2e-5)
    a = np.asarray(a, dtype=np.float64)
    b = np.asarray(b, dtype=np.float64)
    if a.shape != b.shape:
        try:
            a, b = np.broadcast_arrays(a, b)
        except ValueError:
            return False
    if np.any(np.isnan(a) != np.isnan(b)):
        return False
    m = ~np.isnan(a)
    return bool(np.all(np.abs(a[m] - b[m]) <= atol + rtol * np.abs(b[m])))


def relerr(a, b):
    a = np.asarray(a, dtype=np.float64)
    b = np.asarray(b, dtype=np.float64)
    try:
        d = np.max(np.abs(a - b))
    except ValueError:
        return float("inf")
    return float(d / (1e-300 + max(np.max(np.abs(a)), np.max(np.abs(b)), 1e-12)))


def dumps(x):
    return json.dumps(jsonable(x), sort_keys=True)
