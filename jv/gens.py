"""Construction of the real jinns data generators from JSON case descriptions, and helpers
to read their stores / decompose their batches (used by C08, C09, C14, C15, C07 ...)."""
import numpy as np

DOMAINS_1D = [(0.0, 1.0), (-1.0, 1.0), (0.3, 0.7), (2.0, 3.5), (-5.0, -2.0), (0.0, 10.0)]


def make_generator(c):
    """c: dict(kind=ode|statio|nonstatio, key, method, ...) -> real generator (guarded call
    is the caller's business)"""
    import jax
    import jinns

    key = jax.random.PRNGKey(int(c.get("key", 0)))
    kind = c["kind"]
    rar = c.get("rar")
    if kind == "ode":
        kw = {}
        if rar is not None:
            kw = dict(rar_parameters=dict(rar), nt_start=c["nt_start"])
        elif c.get("nt_start") is not None:
            kw = dict(nt_start=c["nt_start"])  # documented as ignored when refinement is off
        return jinns.data.DataGeneratorODE(key, c["nt"], c["tmin"], c["tmax"], c["bt"],
                                           method=c.get("method", "uniform"), **kw)
    common = dict(
        key=key, n=c["n"], nb=c.get("nb"), omega_batch_size=c["b"],
        omega_border_batch_size=c.get("bb"), dim=c["dim"],
        min_pts=tuple(c["min_pts"]), max_pts=tuple(c["max_pts"]),
        method=c.get("method", "uniform"),
    )
    if rar is not None:
        common.update(rar_parameters=dict(rar), n_start=c["n_start"])
    elif c.get("n_start") is not None:
        common.update(n_start=c["n_start"])  # documented as ignored when refinement is off
    if kind == "statio":
        return jinns.data.CubicMeshPDEStatio(**common)
    if kind == "nonstatio":
        if rar is not None or c.get("nt_start") is not None:
            common.update(nt_start=c["nt_start"])
        cart = bool(c.get("cartesian", True))
        if c.get("cartesian_np"):
            cart = np.bool_(cart)  # the option as a numpy boolean (e.g. the result of a numpy comparison)
        return jinns.data.CubicMeshPDENonStatio(
            nt=c["nt"], temporal_batch_size=c["bt"], tmin=c["tmin"], tmax=c["tmax"],
            cartesian_product=cart, **common)
    raise KeyError(kind)


def np_dtype_bounds(arr, lo, hi):
    """bounds cast to the array dtype (the domain as the generator can represent it)"""
    dt = np.asarray(arr).dtype
    return np.asarray(lo, dtype=dt), np.asarray(hi, dtype=dt)


def rowkey(row):
    return np.ascontiguousarray(np.asarray(row)).tobytes()
