"""C02 - built-in dynamic losses equal the residual of their documented equation.

Observe: return value of the real DynamicLoss.evaluate (decorated method: heterogeneity
wrapper + _evaluate dispatch on the path) for Burgers, Fisher-KPP, OU Fokker-Planck 2D,
generalized Lotka-Volterra (log form), 2D mass conservation, 2D stationary Navier-Stokes.
Oracle: numpy, closed-form derivatives of analytic fields; exact solutions must give ~0.
"""
import itertools

import numpy as np

from .. import fields, guard
from ..core import close

PROPERTY = "C02"
LEVEL = "exploration"
RULE = ("cases = equation x (random analytic field | exact solution) x parameter regime (each coefficient "
        "in turn large, the others small, so every term dominates somewhere) x Tmax in {1, 0.37, 10} x points; "
        "GLV with 1..3 other species, every permutation of keys_other, per-network and shared eq_params; "
        "NS / mass conservation with arbitrary key names; non-trivial = |expected residual| > 1e-6 (random "
        "fields) ; distinct = distinct (equation, regime, Tmax, field, point, layout)")
ASSUMPTIONS = [
    "GLV reference is the log form: d/dt log u_main + Tmax(-growth - sum_k inter[k] u_k + carrying sum_k u_k), "
    "inter[0] <-> main, inter[j+1] <-> keys_other[j]",
    "closed-form derivatives of the analytic fields (self-tested against finite differences)",
    "exact solutions: |residual| <= 1e-9 * scale",
]
TIMEOUT = {"quick": 1200, "thorough": 3600}
_DOM = ["dominant_burgers_u_t", "dominant_burgers_adv", "dominant_burgers_diff", "dominant_fisher_u_t",
        "dominant_fisher_diff", "dominant_fisher_growth", "dominant_fisher_comp", "dominant_ou_u_t",
        "dominant_ou_drift", "dominant_ou_diff", "dominant_glv_dlog", "dominant_glv_growth", "dominant_glv_inter",
        "dominant_glv_carry", "dominant_ns_adv", "dominant_ns_pres", "dominant_ns_visc"]
MIN_COUNTERS = {
    "quick": dict({"residuals_compared": 600, "exact_solution_residuals": 60}, **{k: 1 for k in _DOM}),
    "thorough": dict({"residuals_compared": 12000, "exact_solution_residuals": 1000}, **{k: 5 for k in _DOM}),
}
TMAXS = [1.0, 0.37, 10.0]
EQS = ["burgers", "fisher", "ou", "glv", "mass", "ns"]


def selftest():
    return fields.fd_selftest()


def gen_cases(tier, seed):
    q = tier == "quick"
    nf = 6 if q else 120
    cases = []
    for eqn in EQS:
        dims = {"fisher": [1, 2, 3]}.get(eqn, [0])
        for d in dims:
            if eqn == "glv":
                for n_other in (1, 2, 3):
                    for part in range(2):
                        cases.append(dict(eq=eqn, d=d, fam="rand", nfields=max(2, nf // 2), seed=seed, cost=3.0,
                                          n_other=n_other, part=part))
                cases.append(dict(eq=eqn, d=d, fam="exact", nfields=max(3, nf // 3), seed=seed, cost=1.0, n_other=1, part=0))
                continue
            cases.append(dict(eq=eqn, d=d, fam="rand", nfields=nf, seed=seed, cost=2.0))
            cases.append(dict(eq=eqn, d=d, fam="exact", nfields=max(3, nf // 3), seed=seed, cost=1.0))
            if eqn != "glv" and d <= 2:
                cases.append(dict(eq=eqn, d=d, fam="sep", nfields=max(3, nf // 2), seed=seed, cost=4.0))
    return cases


# ----------------------------------------------------------------------------- regimes
def regimes(names, rng):
    """each coefficient in turn large, the others small; plus an all-moderate regime"""
    out = [{n: float(rng.uniform(0.5, 1.5)) for n in names},
           {n: float(rng.uniform(0.0005, 0.002)) for n in names}]
    for big in names:
        out.append({n: (float(rng.uniform(20, 60)) if n == big else float(rng.uniform(0.01, 0.05))) for n in names})
    return out


def dominant(rec, eqn, terms):
    k = max(terms, key=lambda t: abs(terms[t]))
    rec.count("dominant_%s_%s" % (eqn, k))


# ----------------------------------------------------------------------------- exact modules
_EXACT = {}


def exact_module(kind, p):
    import jax.numpy as jnp

    if "cls" not in _EXACT:
        _EXACT["cls"] = _make_exact_cls()
    return _EXACT["cls"](p=jnp.asarray(p, dtype=float), kind=kind)


def _make_exact_cls():
    import equinox as eqx
    import jax.numpy as jnp

    class Exact(eqx.Module):
        p: object
        kind: str = eqx.field(static=True)

        def __call__(self, z):
            p = self.p
            if self.kind == "burgers":      # u = x / (c + Tmax t)
                return (z[1] / (p[0] + p[1] * z[0]))[None]
            if self.kind == "logistic":     # u(t) = K / (1 + A exp(-r Tmax t)), K = r/g
                return ((p[0] / p[1]) / (1.0 + p[2] * jnp.exp(-p[0] * p[3] * z[0])))[None]
            if self.kind == "gauss":        # stationary OU density (unnormalised)
                al, mu, sg = p[0:2], p[2:4], p[4:6]
                return jnp.exp(-jnp.sum(al * (z[1:] - mu) ** 2 / sg**2))[None]
            if self.kind == "expo":         # u = exp(g Tmax t) (single species)
                return jnp.exp(p[0] * p[1] * z[0])[None]
            raise KeyError(self.kind)

    return Exact


# ----------------------------------------------------------------------------- documented expressions (numpy)
def np_burgers(f, z, nu, Tmax):
    v, g, h = f.val(z)[0], f.grad(z)[0], f.hess(z)[0]
    return g[0] + Tmax * (v * g[1] - nu * h[1, 1])


def np_fisher(f, z, D_, r, g_, Tmax):
    v, g, h = f.val(z)[0], f.grad(z)[0], f.hess(z)[0]
    lap = sum(h[i, i] for i in range(1, f.D))
    return g[0] + Tmax * (-D_ * lap - v * (r - g_ * v))


def np_ou(f, z, al, mu, sg, Tmax):
    v, g, h = f.val(z)[0], f.grad(z)[0], f.hess(z)[0]
    x = z[1:]
    drift = sum(-al[i] * v + al[i] * (mu[i] - x[i]) * g[1 + i] for i in range(2))
    diff = sum(0.5 * sg[i] ** 2 * h[1 + i, 1 + i] for i in range(2))
    return -g[0] + Tmax * (-drift + diff)


def np_mass(fu, x):
    g = fu.grad(x)
    return g[0, 0] + g[1, 1]


def np_ns(fu, fp, x, rho, nu):
    v, g, h = fu.val(x), fu.grad(x), fu.hess(x)
    gp = fp.grad(x)[0]
    adv = np.array([v[0] * g[j, 0] + v[1] * g[j, 1] for j in range(2)])
    lap = np.array([h[j, 0, 0] + h[j, 1, 1] for j in range(2)])
    return adv + gp / rho - nu * lap


def _het_x0(t, x, u, params):
    """a parameter varying with the first space coordinate: nu(x) = nu * (1.5 + sin x_0)"""
    import jax.numpy as jnp

    return params.eq_params["nu"] * (1.5 + jnp.sin(x[0]))


def _het_x0_statio(x, u, params):
    """(the signature of a heterogeneity function follows the equation type: no time for a stationary one)"""
    import jax.numpy as jnp

    return params.eq_params["nu"] * (1.5 + jnp.sin(x[0]))


def _het_r(t, x, u, params):
    import jax.numpy as jnp

    return params.eq_params["r"] * (1.5 + jnp.sin(x[0]))


def run_separable(case, rec):
    """the built-in equations on separable networks: every grid value vs the documented expression"""
    import itertools

    import jax.numpy as jnp
    import jinns
    from jinns.parameters import Params, ParamsDict

    from .. import nets

    eqn, d = case["eq"], case["d"]
    rng = np.random.default_rng([case["seed"], EQS.index(eqn), d, 77])
    J = lambda v: jnp.asarray(v, dtype=float)
    for k in range(case["nfields"]):
        Tmax = TMAXS[k % 3]
        r_ = 1 + k % 3
        B = 1 + k % 4  # from a single point per axis (fewer points than coordinates) upwards
        if eqn in ("burgers", "fisher", "ou"):
            dd = {"burgers": 1, "ou": 2}.get(eqn, d)
            D = 1 + dd
            if D == 3:
                B = 1 + k % 3
            sf = fields.SepField(1000 * case["seed"] + k, D, r_, 1)
            sn = nets.SNet(sf, "nonstatio_PDE")
            cols = rng.uniform(0.1, 1.2, (B, D))
            if eqn == "burgers":
                nu = float(rng.uniform(0.1, 1.0))
                dl, eqp = jinns.loss.BurgerEquation(Tmax=Tmax), {"nu": J(nu)}
                ref = lambda z: np_burgers(sf, z, nu, Tmax)
            elif eqn == "fisher":
                D_, r, g_ = rng.uniform(0.2, 1.5, 3)
                dl, eqp = jinns.loss.FisherKPP(Tmax=Tmax), {"D": J(D_), "r": J(r), "g": J(g_)}
                ref = lambda z: np_fisher(sf, z, D_, r, g_, Tmax)
            else:
                al, sg, mu = rng.uniform(0.4, 1.4, 2), rng.uniform(0.5, 1.2, 2), rng.uniform(-0.5, 0.5, 2)
                dl, eqp = jinns.loss.OU_FPENonStatioLoss2D(Tmax=Tmax), {"alpha": J(al), "sigma": J(sg), "mu": J(mu)}
                ref = lambda z: np_ou(sf, z, al, mu, sg, Tmax)
            got = np.asarray(guard.call(dl.evaluate, J(cols[:, :1]), J(cols[:, 1:]), sn.spinn(),
                                        Params(nn_params=sn.nn_params(), eq_params=eqp)))
            exp = np.zeros((B,) * D + (1,))
        else:
            D = 2
            sfu = fields.SepField(1000 * case["seed"] + k, 2, r_, 2)
            sfp = fields.SepField(2000 * case["seed"] + k, 2, 1 + (k + 1) % 2, 1)
            snu, snp = nets.SNet(sfu, "statio_PDE"), nets.SNet(sfp, "statio_PDE")
            cols = rng.uniform(-0.5, 1.5, (B, 2))
            rho, nu = float(rng.uniform(0.5, 2.0)), float(rng.uniform(0.2, 1.5))
            pd = ParamsDict(nn_params={"u": snu.nn_params(), "p": snp.nn_params()}, eq_params={"rho": J(rho), "nu": J(nu)})
            ud = {"u": snu.spinn(), "p": snp.spinn()}
            if eqn == "mass":
                dl = jinns.loss.MassConservation2DStatio(nn_key="u")
                ref = lambda z: np.array([np_mass(sfu, z)])
                exp = np.zeros((B, B, 1))
            else:
                dl = jinns.loss.NavierStokes2DStatio(u_key="u", p_key="p")
                ref = lambda z: np_ns(sfu, sfp, z, rho, nu)
                exp = np.zeros((B, B, 2))
            got = np.asarray(guard.call(dl.evaluate, J(cols), ud, pd))
        for idx in itertools.product(range(B), repeat=D):
            z = np.array([cols[idx[i], i] for i in range(D)])
            exp[idx] = ref(z)
        rec.count("residuals_compared", exp.size)
        rec.count("separable_grid_values", exp.size)
        if np.max(np.abs(exp)) > 1e-6:
            rec.nontrivial((eqn, "sep", d, k, B, r_, Tmax))
        rec.set_sample(eq=eqn, fam="sep", B=B, got=got.reshape(-1)[:4], expected=exp.reshape(-1)[:4])
        if got.shape != exp.shape and got.size == exp.size:
            got = got.reshape(exp.shape)
        if got.shape != exp.shape or not close(got, exp, 1e-8, 1e-9 * max(1.0, float(np.max(np.abs(exp))))):
            offdiag = ""
            if got.shape == exp.shape and exp.ndim >= 3 and close(np.swapaxes(got, 0, 1), exp, 1e-8, 1e-9):
                offdiag = "/grid-axes-transposed"
            rec.violation("%s/separable-residual%s" % (eqn, offdiag),
                          "%s on a separable network: grid residual %s, documented expression %s (B=%d, Tmax=%g)"
                          % (eqn, got.reshape(-1)[:4], exp.reshape(-1)[:4], B, Tmax), got=got, expected=exp)


def run_case(case, rec):
    if case["fam"] == "sep":
        return run_separable(case, rec)
    import equinox as eqx
    import jax
    import jax.numpy as jnp
    import jinns
    from jinns.parameters import Params, ParamsDict

    eqn, fam, d = case["eq"], case["fam"], case["d"]
    rng = np.random.default_rng([case["seed"], EQS.index(eqn), d, fam == "rand"])
    J = lambda v: jnp.asarray(v, dtype=float)

    cache = {}

    def compare(got, exp, scale, key, exact=False, **wit):
        got = np.asarray(got, dtype=float).reshape(-1)
        exp = np.asarray(exp, dtype=float).reshape(-1)
        rec.count("residuals_compared", exp.size)
        if exact:
            rec.count("exact_solution_residuals", exp.size)
            ok = got.shape == exp.shape and np.all(np.abs(got) <= 1e-9 * max(scale, 1.0))
            rec.nontrivial(key)
        else:
            ok = got.shape == exp.shape and close(got, exp, 1e-8, 1e-9 * max(scale, 1.0))
            if np.max(np.abs(exp)) > 1e-6:
                rec.nontrivial(key)
        rec.set_sample(eq=eqn, fam=fam, got=got, expected=exp, **wit)
        if not ok:
            rec.violation("%s/%s" % (eqn, "exact-solution-residual-nonzero" if exact else "residual"),
                          "%s residual %s, expected %s (%s)" % (eqn, got[:3], exp[:3], wit),
                          got=got, expected=exp, **wit)

    # ======================================================================= Burgers
    if eqn == "burgers":
        if fam == "rand":
            f0 = fields.TrigField(0, 2, 1)
            u = fields.make_pinn(f0.module(), "nonstatio_PDE", 1)
        call = None
        for k in range(case["nfields"]):
            for reg in regimes(["adv", "nu"], rng):
                for Tmax in TMAXS:
                    nu = reg["nu"]
                    if fam == "rand":
                        f = fields.TrigField(1000 * case["seed"] + k, 2, 1, scale=reg["adv"])
                        nn = f.leaves()
                    else:
                        c = float(rng.uniform(1.5, 3.0))
                        mod = exact_module("burgers", [c, Tmax])
                        u = fields.make_pinn(mod, "nonstatio_PDE", 1)
                        nn = eqx.partition(mod, eqx.is_inexact_array)[0]
                        nu = reg["nu"]
                        call = None
                    if call is None:
                        call = jax.jit(lambda dl, nn_, eq_, t, x, u=u: dl.evaluate(t, x, u, Params(nn_params=nn_, eq_params=eq_)))
                    dl = jinns.loss.BurgerEquation(Tmax=Tmax)
                    het = fam == "rand" and k % 3 == 1
                    if het:
                        # the viscosity declared heterogeneous: its role is played by nu(x) at the point
                        dl = jinns.loss.BurgerEquation(Tmax=Tmax, eq_params_heterogeneity={"nu": _het_x0})
                        rec.count("residuals_with_a_heterogeneous_parameter")
                    nu_base = nu
                    for _ in range(2):
                        z = rng.uniform(0.1, 1.2, 2)
                        got = guard.call(call, dl, nn, {"nu": J(nu_base)}, J(z[:1]), J(z[1:]))
                        if het:
                            nu = nu_base * (1.5 + np.sin(z[1]))
                        if fam == "rand":
                            v, g, h = f.val(z)[0], f.grad(z)[0], f.hess(z)[0]
                            terms = {"u_t": g[0], "adv": Tmax * v * g[1], "diff": -Tmax * nu * h[1, 1]}
                            dominant(rec, eqn, terms)
                            compare(got, sum(terms.values()), max(abs(t) for t in terms.values()),
                                    (eqn, k, tuple(sorted(reg.items())), Tmax, tuple(z)), Tmax=Tmax, nu=nu, z=z)
                        else:
                            compare(got, 0.0, 1.0, (eqn, "exact", k, Tmax, tuple(z)), exact=True, Tmax=Tmax, z=z)
        return
    # ======================================================================= Fisher-KPP
    if eqn == "fisher":
        D = 1 + d
        f0 = fields.TrigField(0, D, 1)
        u = fields.make_pinn(f0.module(), "nonstatio_PDE", 1)
        call = jax.jit(lambda dl, nn_, eq_, t, x, u=u: dl.evaluate(t, x, u, Params(nn_params=nn_, eq_params=eq_)))
        for k in range(case["nfields"]):
            for reg in regimes(["D", "r", "g"], rng):
                for Tmax in TMAXS:
                    dl = jinns.loss.FisherKPP(Tmax=Tmax)
                    eqp = {"D": J(reg["D"]), "r": J(reg["r"]), "g": J(reg["g"])}
                    if fam == "rand":
                        f = fields.TrigField(1000 * case["seed"] + k, D, 1)
                        het = k % 3 == 1
                        if het:
                            dl = jinns.loss.FisherKPP(Tmax=Tmax, eq_params_heterogeneity={"r": _het_r})
                            rec.count("residuals_with_a_heterogeneous_parameter")
                        for _ in range(2):
                            z = rng.uniform(-0.5, 1.5, D)
                            got = guard.call(call, dl, f.leaves(), eqp, J(z[:1]), J(z[1:]))
                            v, g, h = f.val(z)[0], f.grad(z)[0], f.hess(z)[0]
                            lap = sum(h[i, i] for i in range(1, D))
                            r_eff = reg["r"] * (1.5 + np.sin(z[1])) if het else reg["r"]
                            terms = {"u_t": g[0], "diff": -Tmax * reg["D"] * lap,
                                     "growth": -Tmax * v * r_eff, "comp": Tmax * reg["g"] * v * v}
                            dominant(rec, eqn, terms)
                            compare(got, sum(terms.values()), max(abs(t) for t in terms.values()),
                                    (eqn, d, k, tuple(sorted(reg.items())), Tmax, tuple(z)), Tmax=Tmax, reg=reg, z=z)
                    else:
                        # constant state r/g (polynomial field) and spatially constant logistic growth
                        pf = fields.PolyField(D, 1, deg=1)
                        pf.C[0, 0] = reg["r"] / reg["g"]
                        if "poly" not in cache:
                            up = fields.make_pinn(pf.module(), "nonstatio_PDE", 1)
                            cache["poly"] = jax.jit(lambda dl, nn_, eq_, t, x, u=up: dl.evaluate(
                                t, x, u, Params(nn_params=nn_, eq_params=eq_)))
                        z = rng.uniform(-0.5, 1.5, D)
                        got = guard.call(cache["poly"], dl, pf.leaves(), eqp, J(z[:1]), J(z[1:]))
                        compare(got, 0.0, reg["r"] ** 2 / reg["g"] * Tmax, (eqn, "const", d, k, Tmax, tuple(sorted(reg.items()))),
                                exact=True, sol="r/g", Tmax=Tmax, reg=reg)
                        r_, g_ = min(reg["r"], 3.0), reg["g"]
                        mod = exact_module("logistic", [r_, g_, 0.7, Tmax])
                        if "logi" not in cache:
                            ul = fields.make_pinn(mod, "nonstatio_PDE", 1)
                            cache["logi"] = jax.jit(lambda dl, nn_, eq_, t, x, u=ul: dl.evaluate(
                                t, x, u, Params(nn_params=nn_, eq_params=eq_)))
                        eql = {"D": J(reg["D"]), "r": J(r_), "g": J(g_)}
                        zt = rng.uniform(0.0, 1.0, D)
                        got = guard.call(cache["logi"], dl, eqx.partition(mod, eqx.is_inexact_array)[0], eql,
                                         J(zt[:1]), J(zt[1:]))
                        compare(got, 0.0, Tmax * r_ * r_ / g_, (eqn, "logistic", d, k, Tmax, tuple(sorted(reg.items()))),
                                exact=True, sol="logistic", Tmax=Tmax, reg=reg)
        return
    # ======================================================================= OU Fokker-Planck 2D
    if eqn == "ou":
        f0 = fields.TrigField(0, 3, 1)
        u = fields.make_pinn(f0.module(), "nonstatio_PDE", 1)
        call = jax.jit(lambda dl, nn_, eq_, t, x, u=u: dl.evaluate(t, x, u, Params(nn_params=nn_, eq_params=eq_)))
        for k in range(case["nfields"]):
            for reg in regimes(["alpha", "sigma"], rng):
                for Tmax in TMAXS:
                    dl = jinns.loss.OU_FPENonStatioLoss2D(Tmax=Tmax)
                    al = reg["alpha"] * rng.uniform(0.6, 1.4, 2)
                    sg = np.sqrt(reg["sigma"]) * rng.uniform(0.6, 1.4, 2)
                    mu = rng.uniform(-0.5, 0.5, 2)
                    eqp = {"alpha": J(al), "sigma": J(sg), "mu": J(mu)}
                    if fam == "rand":
                        f = fields.TrigField(1000 * case["seed"] + k, 3, 1)
                        for _ in range(2):
                            z = rng.uniform(-0.5, 1.5, 3)
                            got = guard.call(call, dl, f.leaves(), eqp, J(z[:1]), J(z[1:]))
                            v, g, h = f.val(z)[0], f.grad(z)[0], f.hess(z)[0]
                            x = z[1:]
                            drift = sum(-al[i] * v + al[i] * (mu[i] - x[i]) * g[1 + i] for i in range(2))
                            diff = sum(0.5 * sg[i] ** 2 * h[1 + i, 1 + i] for i in range(2))
                            terms = {"u_t": -g[0], "drift": -Tmax * drift, "diff": Tmax * diff}
                            dominant(rec, eqn, terms)
                            compare(got, sum(terms.values()), max(abs(t) for t in terms.values()),
                                    (eqn, k, tuple(sorted(reg.items())), Tmax, tuple(z)), Tmax=Tmax, alpha=al, sigma=sg, mu=mu, z=z)
                    else:
                        al_, sg_ = np.minimum(al, 2.0), np.maximum(sg, 0.5)
                        mod = exact_module("gauss", np.concatenate([al_, mu, sg_]))
                        ug = fields.make_pinn(mod, "nonstatio_PDE", 1)
                        z = np.concatenate([rng.uniform(0, 1, 1), mu + rng.uniform(-0.4, 0.4, 2)])
                        eqg = {"alpha": J(al_), "sigma": J(sg_), "mu": J(mu)}
                        got = guard.call(lambda: dl.evaluate(J(z[:1]), J(z[1:]), ug,
                                                             Params(nn_params=eqx.partition(mod, eqx.is_inexact_array)[0], eq_params=eqg)))
                        compare(got, 0.0, Tmax * float(np.max(al_)) * 10, (eqn, "gauss", k, Tmax, tuple(sorted(reg.items()))),
                                exact=True, sol="stationary gaussian", Tmax=Tmax)
        return
    # ======================================================================= GLV (log form)
    if eqn == "glv":
        def posfield(s):
            f = fields.TrigField(s, 1, 1, scale=0.2)
            f.c["C0"][:] = 3.0
            return f

        f0 = posfield(0)
        u1 = fields.make_pinn(f0.module(), "ODE", 1)
        names_all = ["wolf", "7", "x_y", "main"]
        rng = np.random.default_rng([case["seed"], 4, case["n_other"], case["part"]])
        for k in range(case["nfields"]):
            k = k + 1000 * case["part"]
            for n_other in (case["n_other"],):
                keys = names_all[: n_other + 1]
                main = keys[k % len(keys)]
                others0 = [q_ for q_ in keys if q_ != main]
                perms = list(itertools.permutations(others0))
                for perm in (perms if k % 1000 < 2 else perms[:1]):
                    for layout in ("per_network", "shared"):
                        for reg in regimes(["growth", "inter", "carry"], rng)[: (5 if k % 1000 < 2 else 2)]:
                            Tmax = TMAXS[(k + n_other) % 3]
                            fs = {q_: posfield(1000 * case["seed"] + 17 * k + i) for i, q_ in enumerate(keys)}
                            inter = reg["inter"] * rng.uniform(0.5, 1.5, n_other + 1) * rng.choice([-1, 1], n_other + 1)
                            growth, carry = reg["growth"], reg["carry"]
                            own = {"growth_rate": J(growth), "carrying_capacity": J(carry), "interactions": J(inter)}
                            if layout == "per_network":
                                eqp = {q_: ({kk: vv * (1.0 if q_ == main else 7.0) for kk, vv in own.items()}) for q_ in keys}
                            else:
                                eqp = own
                            pd = ParamsDict(nn_params={q_: fs[q_].leaves() for q_ in keys}, eq_params=eqp)
                            dl = jinns.loss.GeneralizedLotkaVolterra(key_main=main, keys_other=list(perm), Tmax=Tmax)
                            # one shared network object for every population (parameters differ), or one distinct
                            # object per population (different output transform, same parameter structure)
                            distinct = bool((k + n_other) % 2)
                            scales = {q_: (1.0 + 0.35 * i if distinct else 1.0) for i, q_ in enumerate(keys)}
                            if distinct:
                                udict = {q_: fields.make_pinn(f0.module(), "ODE", 1,
                                                              output_transform=(lambda i_, o_, p_, s_=scales[q_]: o_ * s_))
                                         for q_ in keys}
                                rec.count("glv_distinct_network_objects")
                            else:
                                udict = {q_: u1 for q_ in keys}
                            if fam == "exact":
                                if n_other != 1 or layout != "shared":
                                    continue
                                # single effective species: no interaction, no carrying -> u = exp(g Tmax t)
                                mod = exact_module("expo", [growth if growth < 5 else 1.0, Tmax])
                                g_ = float(mod.p[0])
                                ue = fields.make_pinn(mod, "ODE", 1)
                                pde = ParamsDict(nn_params={q_: eqx.partition(mod, eqx.is_inexact_array)[0] for q_ in keys},
                                                 eq_params={"growth_rate": J(g_), "carrying_capacity": J(0.0),
                                                            "interactions": J(np.zeros(n_other + 1))})
                                t = rng.uniform(0, 1)
                                got = guard.call(lambda: dl.evaluate(J(t), {q_: ue for q_ in keys}, pde))
                                compare(got, 0.0, Tmax * g_, (eqn, "expo", k, Tmax, main), exact=True, sol="exp growth")
                                # equilibrium: constants with -growth - sum inter u + carry sum u = 0
                                consts = rng.uniform(0.5, 2.0, n_other + 1)
                                pfs = {}
                                for i, q_ in enumerate([main] + list(perm)):
                                    pf = fields.PolyField(1, 1)
                                    pf.C[0, 0] = consts[i]
                                    pfs[q_] = pf
                                gr = float(-np.dot(inter, consts) + carry * np.sum(consts))
                                pdq = ParamsDict(nn_params={q_: pfs[q_].leaves() for q_ in keys},
                                                 eq_params={"growth_rate": J(gr), "carrying_capacity": J(carry),
                                                            "interactions": J(inter)})
                                up = fields.make_pinn(pfs[main].module(), "ODE", 1)
                                got = guard.call(lambda: dl.evaluate(J(t), {q_: up for q_ in keys}, pdq))
                                compare(got, 0.0, Tmax * (abs(gr) + 1), (eqn, "equilibrium", k, Tmax, main, perm),
                                        exact=True, sol="equilibrium")
                                continue
                            for tshape in ("0d", "1d"):
                                t = float(rng.uniform(0, 1))
                                tj = J(t) if tshape == "0d" else J([t])
                                got = guard.call(lambda: dl.evaluate(tj, udict, pd))
                                vals = {q_: scales[q_] * fs[q_].val([t])[0] for q_ in keys}
                                dlog = scales[main] * fs[main].grad([t])[0, 0] / vals[main]
                                order = [main] + list(perm)
                                it = sum(inter[i] * vals[q_] for i, q_ in enumerate(order))
                                ct = carry * sum(vals[q_] for q_ in order)
                                terms = {"dlog": dlog, "growth": -Tmax * growth, "inter": -Tmax * it, "carry": Tmax * ct}
                                dominant(rec, eqn, terms)
                                rec.count("glv_layout_%s" % layout)
                                rec.count("glv_n_other_%d" % n_other)
                                compare(got, sum(terms.values()), max(abs(v_) for v_ in terms.values()),
                                        (eqn, k, n_other, main, perm, layout, tuple(sorted(reg.items())), tshape),
                                        Tmax=Tmax, main=main, others=list(perm), layout=layout, t=t)
        return
    # ======================================================================= mass conservation / NS
    if eqn in ("mass", "ns"):
        fu0 = fields.TrigField(0, 2, 2)
        fp0 = fields.TrigField(0, 2, 1)
        uu = fields.make_pinn(fu0.module(), "statio_PDE", 2)
        pp = fields.make_pinn(fp0.module(), "statio_PDE", 1)
        keysets = [("u", "p"), ("velocity field", "0"), ("p", "u")]
        for k in range(case["nfields"]):
            ku, kp = keysets[k % 3]
            for reg in (regimes(["adv", "pres", "visc"], rng) if eqn == "ns" else regimes(["div"], rng)[:1]):
                if eqn == "mass":
                    dl = jinns.loss.MassConservation2DStatio(nn_key=ku)
                else:
                    dl = jinns.loss.NavierStokes2DStatio(u_key=ku, p_key=kp)
                x = rng.uniform(-0.5, 1.5, 2)
                if fam == "rand":
                    fu = fields.TrigField(1000 * case["seed"] + k, 2, 2, scale=reg.get("adv", 1.0) ** 0.5)
                    fp = fields.TrigField(2000 * case["seed"] + k, 2, 1, scale=reg.get("pres", 1.0))
                    rho, nu = float(rng.uniform(0.5, 2.0)), reg.get("visc", 1.0)
                    pd = ParamsDict(nn_params={ku: fu.leaves(), kp: fp.leaves()},
                                    eq_params={"rho": J(rho), "nu": J(nu)})
                    if eqn == "ns" and k % 3 == 1:
                        # the viscosity declared heterogeneous (a stationary equation): nu(x) at the point
                        dl = jinns.loss.NavierStokes2DStatio(u_key=ku, p_key=kp, eq_params_heterogeneity={"nu": _het_x0_statio})
                        rec.count("residuals_with_a_heterogeneous_parameter")
                        rec.count("stationary_residuals_with_a_heterogeneous_parameter")
                        nu = nu * (1.5 + np.sin(x[0]))
                    got = guard.call(lambda: dl.evaluate(J(x), {ku: uu, kp: pp}, pd))
                    v, g, h = fu.val(x), fu.grad(x), fu.hess(x)
                    if eqn == "mass":
                        compare(got, g[0, 0] + g[1, 1], abs(g[0, 0]) + abs(g[1, 1]), (eqn, k, ku, tuple(x)), keys=(ku, kp), x=x)
                    else:
                        gp = fp.grad(x)[0]
                        adv = np.array([v[0] * g[j, 0] + v[1] * g[j, 1] for j in range(2)])
                        lap = np.array([h[j, 0, 0] + h[j, 1, 1] for j in range(2)])
                        terms = {"adv": np.max(np.abs(adv)), "pres": np.max(np.abs(gp / rho)), "visc": np.max(np.abs(nu * lap))}
                        dominant(rec, eqn, terms)
                        compare(got, adv + gp / rho - nu * lap, max(terms.values()),
                                (eqn, k, ku, kp, tuple(sorted(reg.items())), tuple(x)), keys=(ku, kp), rho=rho, nu=nu, x=x)
                else:
                    # divergence-free polynomial field (y^2, x^2) / Poiseuille flow with its linear pressure
                    pu = fields.PolyField(2, 2)
                    ppf = fields.PolyField(2, 1)
                    ex = pu.exps
                    if eqn == "mass":
                        pu.C[0, ex.index((0, 2))] = 1.3
                        pu.C[1, ex.index((2, 0))] = -0.7
                        pu.C[0, ex.index((1, 0))] = 0.9
                        pu.C[1, ex.index((0, 1))] = -0.9
                        scale, sol = 2.0, "div-free polynomial"
                        rho, nu = 1.0, 1.0
                    else:
                        U, R, rho, nu = float(rng.uniform(0.5, 2)), float(rng.uniform(0.5, 2)), float(rng.uniform(0.5, 2)), reg["visc"]
                        G = 2 * nu * U * rho / R**2
                        pu.C[0, ex.index((0, 0))] = U
                        pu.C[0, ex.index((0, 2))] = -U / R**2
                        ppf.C[0, ex.index((0, 0))] = 1.0
                        ppf.C[0, ex.index((1, 0))] = -G
                        scale, sol = G / rho + 1, "Poiseuille"
                    upoly = fields.make_pinn(pu.module(), "statio_PDE", 2)
                    ppoly = fields.make_pinn(ppf.module(), "statio_PDE", 1)
                    pd = ParamsDict(nn_params={ku: pu.leaves(), kp: ppf.leaves()}, eq_params={"rho": J(rho), "nu": J(nu)})
                    got = guard.call(lambda: dl.evaluate(J(x), {ku: upoly, kp: ppoly}, pd))
                    compare(got, np.zeros(1 if eqn == "mass" else 2), scale, (eqn, "exact", k, ku, kp), exact=True, sol=sol)
        return
