"""C20 - loss evaluation and batch drawing are pure and compilation-invariant.

Observe: deep snapshots (pytree leaves AND every dict reachable through static fields) of
all arguments before/after eager evaluate() / get_batch(); values of eager vs jit vs
value_and_grad primal vs disable_jit; repeated evaluation on the same objects in several
call orders; jax.checking_leaks() as a tracer-leak sanitizer.
"""
import dataclasses
import hashlib

import numpy as np

from .. import fields, gens, guard, nets
from ..core import close

PROPERTY = "C20"
LEVEL = "exploration"
RULE = ("cases = (five loss classes x batch flavour {plain, +parameter batch, +observations, both} x network "
        "{PINN, SPINN, HYPERPINN}) and (every generator kind x state {fresh, mid-epoch, epoch end}) x call "
        "order {eager-jit-eager, jit-jit, grad-eager}; every case is non-trivial (a loss value or a batch is "
        "produced); distinct = distinct configuration tuples")
ASSUMPTIONS = [
    "eager / jit / value_and_grad primal compared at rtol 1e-12 (XLA fusion may reorder roundings); repeated calls in the same mode bit-exact",
    "a snapshot holds treedef, per-leaf dtype/shape/bytes digest, and id + keys + content digest of every dict reachable (static fields included)",
    "an exception raised only under jit (eager works on the same arguments) is a compilation-variance violation",
]
TIMEOUT = {"quick": 1800, "thorough": 5400}
MIN_COUNTERS = {"quick": {"loss_cases": 30, "generator_cases": 30, "snapshots_compared": 250, "mode_pairs_compared": 150},
                "thorough": {"loss_cases": 200, "generator_cases": 200, "snapshots_compared": 1500, "mode_pairs_compared": 900}}

LOSSES = ["ode", "statio", "nonstatio", "sys_ode", "sys_pde"]
FLAVOURS = ["plain", "param", "obs", "both"]
GENS = ["ode", "statio1", "statio2", "nonstatio1", "nonstatio2", "obs", "obs_eq", "param", "param_user", "multi"]


def gen_cases(tier, seed):
    q = tier == "quick"
    rng = np.random.default_rng(seed + 2020)
    cases = []
    k = 0
    for rep in range(1 if q else 8):
        for l in LOSSES:
            for fl in FLAVOURS:
                for net in ("pinn", "spinn", "hyper"):
                    if net == "spinn" and (l in ("ode", "sys_ode") or fl in ("obs", "both")):
                        continue
                    if net == "hyper" and l.startswith("sys"):
                        continue
                    k += 1
                    cases.append(dict(mode="loss", loss=l, flavour=fl, net=net, order=["eje", "jj", "ge"][k % 3],
                                      d=int(rng.integers(1, 3)), B=int(rng.integers(2, 5)), seed=seed * 10000 + k, cost=3.0))
        # a switched-off dynamic term (weight = the Python number 0) whose residual is non-finite at one batch point:
        # what the term evaluates to must not depend on whether the weight is a concrete number (eager, closure) or a
        # traced value (the loss passed through jit, as solve() does)
        for l in ("ode", "statio", "nonstatio"):
            for order in ("eje", "jj", "ge"):
                k += 1
                cases.append(dict(mode="loss", loss=l, flavour="plain", net="pinn", order=order, variant="zero_weight_singular",
                                  d=int(rng.integers(1, 3)), B=int(rng.integers(2, 5)), seed=seed * 10000 + k, cost=3.0))
        # Neumann boundary terms, first evaluated under jit, then eagerly / through value-and-grad / under a new trace:
        # nothing computed while tracing may survive the trace (module-level caches, globals)
        for l in ("statio", "nonstatio"):
            for d_ in (1, 2):
                k += 1
                cases.append(dict(mode="neumann_jit_first", loss=l, d=d_, B=int(rng.integers(2, 5)), seed=seed * 10000 + k, cost=2.0))
        for g in GENS:
            for state in ("fresh", "mid", "end"):
                for x64 in (True, False):
                    k += 1
                    cases.append(dict(mode="gen", gen=g, state=state, seed=seed * 10000 + k, cost=1.0, x64=x64))
        for g in ("obs_eq", "param_user"):
            k += 1
            cases.append(dict(mode="two_loaders", gen=g, seed=seed * 10000 + k, cost=1.0))
    return cases


# ----------------------------------------------------------------------------- snapshots
def _digest(a):
    try:
        a = np.asarray(a)
    except RuntimeError as e:
        # a buffer that was donated / deleted behind the caller's back: the argument WAS modified
        return ("deleted-array", str(e)[:60], "")
    return (str(a.dtype), tuple(a.shape), hashlib.sha1(np.ascontiguousarray(a).tobytes()).hexdigest()[:16])


def snapshot(obj, depth=0, seen=None):
    import equinox as eqx
    import jax

    if seen is None:
        seen = set()
    if depth > 12:
        return "…"
    if obj is None or isinstance(obj, (bool, int, float, str, slice)):
        return repr(obj)
    if isinstance(obj, (np.ndarray, jax.Array)):
        return ("arr",) + _digest(obj)
    if isinstance(obj, dict):
        return ("dict", id(obj), tuple((repr(k), snapshot(v, depth + 1, seen)) for k, v in obj.items()))
    if isinstance(obj, (list, tuple)):
        return (type(obj).__name__, (id(obj) if isinstance(obj, list) else 0),
                tuple(snapshot(v, depth + 1, seen) for v in obj))
    if dataclasses.is_dataclass(obj) and not isinstance(obj, type):
        out = [type(obj).__name__]
        for f in dataclasses.fields(obj):
            try:
                v = getattr(obj, f.name)
            except AttributeError:
                continue
            out.append((f.name, snapshot(v, depth + 1, seen)))
        return tuple(out)
    if callable(obj):
        return ("callable", getattr(obj, "__qualname__", type(obj).__name__))
    return ("other", type(obj).__name__)


def diff_path(a, b, path=""):
    if a == b:
        return None
    if isinstance(a, tuple) and isinstance(b, tuple) and len(a) == len(b):
        for i, (x, y) in enumerate(zip(a, b)):
            d = diff_path(x, y, path + "/%s" % (x[0] if isinstance(x, tuple) and x and isinstance(x[0], str) else i))
            if d:
                return d
    return path + " : %s -> %s" % (str(a)[:80], str(b)[:80])


def run_case(case, rec):
    if case["mode"] == "loss":
        return run_loss(case, rec)
    if case["mode"] == "neumann_jit_first":
        return run_neumann_jit_first(case, rec)
    if case["mode"] == "gen":
        return run_gen(case, rec)
    return run_two_loaders(case, rec)


# ----------------------------------------------------------------------------- losses
def build_loss(case, rng):
    """-> (loss, params, batch)"""
    import equinox as eqx
    import jax
    import jax.numpy as jnp
    import jinns
    from jinns.parameters import Params

    from .c12 import EQ0, Problem
    from .c13 import SystemProblem

    l, fl, net, B, d = case["loss"], case["flavour"], case["net"], case["B"], case["d"]
    want_p, want_o = fl in ("param", "both"), fl in ("obs", "both")
    if l.startswith("sys"):
        kind = "ode" if l == "sys_ode" else ["statio", "nonstatio"][case["seed"] % 2]
        parts = (["ic"] if kind != "statio" else ["boundary"]) + (["obs"] if want_o else [])
        sp = SystemProblem(dict(kind=kind, d=0 if kind == "ode" else d, E=2, U=2, names=["a", "b"], eqnames=["e1", "e2"],
                                weights="scalar", parts=parts, B=B, seed=case["seed"]), rng)
        if net == "spinn":
            raise guard.Unsupported("system of separable networks not generated")
        sp.make_data(B)
        loss = sp.loss()
        tabs = {"theta": rng.uniform(0.5, 1.5, (B, 1))} if want_p else None
        return loss, sp.params, sp.batch(param_batch=tabs)
    kind = l
    parts = {"ode": ["ic"], "statio": ["boundary", "norm"], "nonstatio": ["ic", "boundary", "norm"]}[kind] + (["obs"] if want_o else [])
    if net == "pinn":
        pr = Problem(dict(kind=kind, d=0 if kind == "ode" else d, n_out=1, ncomp=2, seed=case["seed"]), rng, parts,
                     reads=("theta", "phi"))
        pr.make_data(B)
        loss = pr.loss()
        if (case["seed"] // 3) % 3 == 2 or case["seed"] % 7 == 3:  # (seed % 3 selects the order of the modes)
            # one parameter declared heterogeneous, the other keys left out of the dictionary (documented: a missing key
            # means no heterogeneity): the loss object, its static dictionaries included, is an argument like the others
            hsum = lambda z, params: 0.8 + 0.3 * jnp.sum(z) + 0.1 * jnp.sum(params.eq_params["kappa"])
            hj = {"ode": lambda t, u, params: hsum(jnp.reshape(t, (1,)), params),
                  "statio": lambda x, u, params: hsum(x, params),
                  "nonstatio": lambda t, x, u, params: hsum(jnp.concatenate([t, x]), params)}[kind]
            loss = pr.loss(hetero={"theta": hj})
        # two batched keys, handed over in reverse-sorted insertion order through the public batch constructor
        tabs = {"theta": rng.uniform(0.5, 1.5, (B, 1)), "phi": rng.uniform(0.1, 0.5, (B, 1))} if want_p else None
        # observation batches carry observed equation parameters in half of the cases
        obs_eq = {"theta": rng.uniform(0.5, 1.5, (B, 1))} if (want_o and (fl == "both" or kind != "statio")) else None
        if obs_eq is not None and tabs is not None:
            tabs.pop("theta")  # theta is observed in this flavour
            tabs["kappa"] = -rng.uniform(0.5, 1.5, (B, 1))
        return loss, pr.params, pr.batch(param_batch=tabs, obs_eq=obs_eq, direct=True)
    from .. import eqs
    D = {"ode": 1, "statio": d, "nonstatio": d + 1}[kind]
    eqt = {"ode": "ODE", "statio": "statio_PDE", "nonstatio": "nonstatio_PDE"}[kind]
    spec = eqs.ResidSpec(case["seed"], 2, 1, D, with_deriv=(net != "spinn"))
    dyn = spec.module(kind)
    J = jnp.asarray
    if net == "spinn":
        sn = nets.SNet(fields.SepField(case["seed"], D, 2, 1), eqt)
        u, nn = sn.spinn(), sn.nn_params()
        eqp = {k: J(v) for k, v in EQ0.items()}
    else:
        lst = ((eqx.nn.Linear, D, 4), (jax.nn.tanh,), (eqx.nn.Linear, 4, 1))
        u = jinns.utils.create_HYPERPINN(jax.random.PRNGKey(case["seed"] % 1000), lst, eqt, ["theta", "kappa"], 2,
                                         0 if kind == "ode" else d,
                                         eqx_list_hyper=((eqx.nn.Linear, 2, 3), (jax.nn.tanh,), (eqx.nn.Linear, 3, 1)))
        nn = u.init_params()
        eqp = {k: J([v]) for k, v in EQ0.items()}
    params = Params(nn_params=nn, eq_params=eqp)
    kw = {}
    Bb = B
    pts = rng.uniform(0, 1, (B, 1)) if kind == "ode" else rng.uniform(-1, 2, (B, D))
    if kind == "ode":
        kw["initial_condition"] = (0.25, J([0.3]))
        loss = jinns.loss.LossODE(u=u, dynamic_loss=dyn, params=params, **kw)
        batch = jinns.data.ODEBatch(temporal_batch=J(pts[:, 0]))
    else:
        nf = 2 * d
        cols = []
        for f in range(nf):
            p = rng.uniform(-1, 2, (B, d))
            p[:, f // 2] = [-1.0, 2.0][f % 2]
            cols.append(p)
        sp_ = np.stack(cols, -1)
        if net == "spinn":
            bf = (lambda dx: 0.3) if kind == "statio" else (lambda t, dx: 0.3)
        else:
            bf = (lambda dx: 0.3) if kind == "statio" else (lambda t, dx: 0.3)
        kw.update(omega_boundary_fun=bf, omega_boundary_condition="dirichlet",
                  norm_samples=J(rng.uniform(-1, 2, (B, d))), norm_int_length=2.5)
        if kind == "statio":
            loss = jinns.loss.LossPDEStatio(u=u, dynamic_loss=dyn, params=params, **kw)
            batch = jinns.data.PDEStatioBatch(inside_batch=J(pts), border_batch=J(sp_))
        else:
            sp_ = np.concatenate([np.repeat(rng.uniform(0, 1, (B, 1, 1)), nf, axis=2), sp_], axis=1)
            c0 = J([0.2])
            kw["initial_condition_fun"] = (lambda x: c0 + 0.0 * x[..., 0:1]) if net == "spinn" else (lambda x: c0 + 0.0 * jnp.sum(x))
            loss = jinns.loss.LossPDENonStatio(u=u, dynamic_loss=dyn, params=params, **kw)
            batch = jinns.data.PDENonStatioBatch(times_x_inside_batch=J(pts), times_x_border_batch=J(sp_))
    if want_o:
        batch = jinns.data.append_obs_batch(batch, {"pinn_in": J(rng.uniform(-1, 2, (B, D))),
                                                    "val": J(rng.uniform(-1, 1, (B, 1))), "eq_params": {}})
    if want_p:
        if net == "spinn":
            raise guard.Unsupported("separable network with a parameter batch not generated (grid vs rows)")
        batch = jinns.data.append_param_batch(batch, {"theta": J(rng.uniform(0.5, 1.5, (B, 1)))})
    return loss, params, batch


def run_loss(case, rec):
    import jax
    import jax.numpy as jnp

    rng = np.random.default_rng([case["seed"], 20])
    rec.count("loss_cases")
    try:
        loss, params, batch = guard.call(build_loss, case, rng)
    except guard.Unsupported as u:
        rec.unsupp(u.reason)
        return
    sig = "loss/%s/%s/%s" % (case["loss"], case["net"], case["flavour"])
    if case.get("variant") == "zero_weight_singular":
        import equinox as eqx
        from ..eqs import singular_module
        pt = {"ode": lambda b: np.asarray(b.temporal_batch)[:1], "statio": lambda b: np.asarray(b.inside_batch)[0],
              "nonstatio": lambda b: np.asarray(b.times_x_inside_batch)[0]}[case["loss"]](batch)
        loss = eqx.tree_at(lambda l_: l_.dynamic_loss, loss, singular_module(loss.dynamic_loss, case["loss"], pt))
        loss = eqx.tree_at(lambda l_: l_.loss_weights.dyn_loss, loss, 0.0, is_leaf=lambda x: x is None)
        sig += "/zero-weight-singular-residual"
        rec.count("zero_weight_singular_cases")

    def snap_all():
        return {"params": snapshot(params), "batch": snapshot(batch), "loss": snapshot(loss)}

    def vals(out):
        tot, terms = out
        return np.array([float(tot)] + [float(terms[k]) for k in sorted(terms)])

    def eager():
        before = snap_all()
        out = guard.call(loss.evaluate, params, batch)
        after = snap_all()
        for k in before:
            rec.count("snapshots_compared")
            if before[k] != after[k]:
                rec.violation(sig + "/argument-modified/%s" % k, "evaluate() modified its argument '%s': %s"
                              % (k, diff_path(before[k], after[k])), which=k)
        return vals(out)

    jfun = jax.jit(lambda l, p, b: l.evaluate(p, b))
    gfun = jax.jit(jax.value_and_grad(lambda p, l, b: l.evaluate(p, b), has_aux=True))

    def jitted():
        before = snap_all()
        try:
            with jax.checking_leaks():
                out = jfun(loss, params, batch)
        except Exception as e:  # noqa: BLE001
            if "eak" in str(e)[:300]:
                rec.violation(sig + "/tracer-leak", "jax.checking_leaks(): %s" % str(e)[:300])
                out = jfun(loss, params, batch)
            else:
                raise
        after = snap_all()
        for k in before:
            rec.count("snapshots_compared")
            if before[k] != after[k]:
                rec.violation(sig + "/argument-modified-under-jit/%s" % k, "jit(evaluate) modified '%s': %s"
                              % (k, diff_path(before[k], after[k])))
        return vals(out)

    def grad():
        before = snap_all()
        (tot, terms), _ = guard.call(gfun, params, loss, batch)
        after = snap_all()
        for k in before:
            rec.count("snapshots_compared")
            if before[k] != after[k]:
                rec.violation(sig + "/argument-modified-under-grad/%s" % k, "value_and_grad(evaluate) modified '%s': %s"
                              % (k, diff_path(before[k], after[k])))
        return vals((tot, terms))

    order = {"eje": [("eager", eager), ("jit", jitted), ("eager", eager)],
             "jj": [("jit", jitted), ("jit", jitted), ("eager", eager)],
             "ge": [("grad", grad), ("eager", eager), ("grad", grad)]}[case["order"]]
    seen = {}
    try:
        for name, fn in order:
            v = fn()
            for other, w in seen.items():
                rec.count("mode_pairs_compared")
                if other == name:
                    if not np.array_equal(v, w, equal_nan=True):
                        rec.violation(sig + "/not-repeatable/%s" % name, "two %s evaluations on the same arguments differ: %s vs %s" % (name, v, w))
                elif not close(v, w, 1e-12, 1e-14):
                    rec.violation(sig + "/%s-differs-from-%s" % tuple(sorted([name, other])),
                                  "%s gives %s, %s gives %s" % (name, v, other, w))
            seen.setdefault(name, v)
        with jax.disable_jit():
            v = vals(guard.call(loss.evaluate, params, batch))
        rec.count("mode_pairs_compared")
        if not close(v, list(seen.values())[0], 1e-12, 1e-14):
            rec.violation(sig + "/disable_jit-differs", "op-by-op interpretation gives %s, %s gives %s"
                          % (v, list(seen)[0], list(seen.values())[0]))
    except guard.Crash as c:
        rec.violation(sig + "/crash", "evaluation crashed: %s" % c)
        return
    rec.nontrivial((case["loss"], case["net"], case["flavour"], case["order"], case["d"], case["B"], case.get("variant")))
    rec.set_sample(loss=case["loss"], net=case["net"], flavour=case["flavour"], order=case["order"],
                   values={k: v for k, v in seen.items()})


def run_neumann_jit_first(case, rec):
    import jax
    import jax.numpy as jnp
    import jinns
    from jinns.parameters import Params

    rng = np.random.default_rng([case["seed"], 201])
    kind, d, B = case["loss"], case["d"], case["B"]
    nonst = kind == "nonstatio"
    D = d + (1 if nonst else 0)
    net = nets.Net(fields.TrigField(case["seed"], D, 1), "nonstatio_PDE" if nonst else "statio_PDE")
    params = Params(nn_params=net.nn_params(), eq_params={"nu": jnp.asarray(1.0)})
    Loss = jinns.loss.LossPDENonStatio if nonst else jinns.loss.LossPDEStatio
    loss = guard.call(Loss, u=net.pinn(), dynamic_loss=None, params=params, omega_boundary_condition="von neumann",
                      omega_boundary_fun=(lambda t, dx: 0.3) if nonst else (lambda dx: 0.3))

    def batch_of(nb):
        nf = 2 * d
        cols = []
        for f in range(nf):
            p = rng.uniform(-1, 2, (nb if d == 2 else 1, d))
            p[:, f // 2] = [-1.0, 2.0][f % 2]
            cols.append(p)
        sp = np.stack(cols, -1)
        if nonst:
            sp = np.concatenate([np.repeat(rng.uniform(0, 1, (sp.shape[0], 1, 1)), nf, axis=2), sp], axis=1)
            return jinns.data.PDENonStatioBatch(times_x_inside_batch=jnp.zeros((2, D)), times_x_border_batch=jnp.asarray(sp))
        return jinns.data.PDEStatioBatch(inside_batch=jnp.zeros((2, D)), border_batch=jnp.asarray(sp))

    b1, b2 = batch_of(B), batch_of(B + 1)
    sig = "loss/%s/pinn/neumann-jit-first/dim%d" % (kind, d)
    rec.count("neumann_jit_first_cases")
    val = lambda out: float(out[1]["boundary_loss"])
    steps = [("jit", lambda: jax.jit(lambda l, p, b: l.evaluate(p, b))(loss, params, b1), b1),
             ("eager", lambda: loss.evaluate(params, b1), b1),
             ("grad", lambda: jax.value_and_grad(lambda p: loss.evaluate(p, b1), has_aux=True)(params)[0], b1),
             ("jit-new-trace", lambda: jax.jit(lambda l, p, b: l.evaluate(p, b))(loss, params, b2), b2),
             ("eager-new-batch", lambda: loss.evaluate(params, b2), b2)]
    seen = {}
    for name, fn, bb in steps:
        try:
            v = val(guard.call(fn))
        except guard.Crash as c:
            rec.violation(sig + "/%s-after-jit/crash/%s" % (name, c.etype),
                          "%s evaluation after a first jitted one crashed: %s" % (name, str(c)[:300]))
            continue
        rec.count("mode_pairs_compared")
        key = id(bb)
        if key in seen and not close(v, seen[key][1], 1e-12, 1e-14):
            rec.violation(sig + "/%s-differs-from-%s" % (name, seen[key][0]), "%s gives %r, %s gave %r" % (name, v, seen[key][0], seen[key][1]))
        seen.setdefault(key, (name, v))
    rec.nontrivial(("neumann_jit_first", kind, d, B))
    rec.set_sample(kind=kind, d=d, values={n_: v_ for n_, v_ in seen.values()})


# ----------------------------------------------------------------------------- generators
def build_gen(name, seed, rng):
    import jax
    import jax.numpy as jnp
    import jinns

    key = jax.random.PRNGKey(seed % 100003)
    # one generator in three is configured for residual-adaptive refinement (4 active points of 6 stored, no
    # refinement step happens here): its draws obey the same rules
    rar = {}
    if seed % 3 == 1 and name in ("ode", "statio1", "statio2", "nonstatio1", "nonstatio2"):
        rr = dict(start_iter=10 ** 6, update_every=3)
        if name != "ode":
            rr.update(sample_size_omega=4, selected_sample_size_omega=1)
        if not name.startswith("statio"):
            rr.update(sample_size_times=4, selected_sample_size_times=1)
        rar = dict(rar=rr, n_start=4, nt_start=4)
    ep = 2 if rar else 3
    if name == "ode":
        return gens.make_generator(dict(kind="ode", key=seed % 1000, nt=6, bt=2, tmin=0.0, tmax=1.0, **rar)), ep
    if name in ("statio1", "statio2"):
        d = int(name[-1])
        return gens.make_generator(dict(kind="statio", key=seed % 1000, n=6, b=2, dim=d, min_pts=[-1.0, 0.0][:d],
                                        max_pts=[1.0, 2.0][:d], nb=24 if d == 2 else 2, bb=[5, 2][(seed // 2) % 2] if d == 2 else 1,
                                        **rar)), ep
    if name in ("nonstatio1", "nonstatio2"):
        d = int(name[-1])
        return gens.make_generator(dict(kind="nonstatio", key=seed % 1000, n=6, b=2, dim=d, min_pts=[-1.0, 0.0][:d],
                                        max_pts=[1.0, 2.0][:d], nb=24 if d == 2 else 2,
                                        bb=(2 if (seed // 2) % 2 else 5) if d == 2 else 1,
                                        nt=6, bt=2, tmin=0.0, tmax=1.0, cartesian=bool((seed // 2) % 2 == 0 or seed % 2),
                                        **rar)), ep
    n = 6
    rows = np.arange(n, dtype=float) + rng.uniform(0, 0.5)
    if name in ("obs", "obs_eq"):
        eqp = {"theta": jnp.asarray((rows + 100)[:, None])} if name == "obs_eq" else {}
        if name == "obs_eq" and seed % 3 != 2:
            # a second observed parameter, written after "theta" (insertion order differs from the sorted one)
            eqp["alpha"] = jnp.asarray((rows + 200)[:, None])
        return jinns.data.DataGeneratorObservations(key, 2, jnp.asarray(np.stack([rows, rows * 10], 1)),
                                                    jnp.asarray(rows[:, None]), eqp), 3
    if name in ("param", "param_user"):
        ud = {"beta": jnp.asarray(rows * 3)} if name == "param_user" else {}
        return jinns.data.DataGeneratorParameter(key, n, 2, param_ranges={"alpha": (0.0, 1.0)}, user_data=ud), 3
    if name == "multi":
        return jinns.data.DataGeneratorObservationsMultiPINNs(
            2, {"a": jnp.asarray(np.stack([rows, rows], 1)), "b": None}, {"a": jnp.asarray(rows[:, None]), "b": None},
            key=key), 3
    raise KeyError(name)


def leaves_np(tree):
    import jax

    return [np.asarray(x) for x in jax.tree_util.tree_leaves(tree)]


def run_gen(case, rec):
    import jax

    rng = np.random.default_rng([case["seed"], 21])
    rec.count("generator_cases")
    jax.clear_caches()
    g, epoch = guard.call(build_gen, case["gen"], case["seed"], rng)
    sig = "get_batch/%s/%s" % (case["gen"], case["state"])
    adv = {"fresh": 0, "mid": 1, "end": epoch}[case["state"]]
    for _ in range(adv):
        g, _b = guard.call(g.get_batch)
    before = snapshot(g)
    g1, b1 = guard.call(g.get_batch)
    after = snapshot(g)
    rec.count("snapshots_compared")
    if before != after:
        rec.violation(sig + "/generator-modified", "get_batch() modified the generator it was called on: %s"
                      % diff_path(before, after))
    g2, b2 = guard.call(g.get_batch)
    rec.count("mode_pairs_compared")
    if not all(np.array_equal(a, b) for a, b in zip(leaves_np(b1), leaves_np(b2))) or \
            not all(np.array_equal(a, b) for a, b in zip(leaves_np(g1), leaves_np(g2))):
        rec.violation(sig + "/not-repeatable", "two get_batch() calls on the same generator state differ")
    try:
        with jax.checking_leaks():
            g3, b3 = jax.jit(lambda gg: gg.get_batch())(g)
    except Exception as e:  # noqa: BLE001
        rec.violation(sig + "/jit-raises-eager-works", "jit(get_batch) raised %s: %s" % (type(e).__name__, str(e)[:200]))
        return
    rec.count("mode_pairs_compared")
    la, lb = leaves_np(b1), leaves_np(b3)
    if len(la) != len(lb) or not all(a.shape == b.shape and close(a, b, 1e-12, 1e-14) for a, b in zip(la, lb)):
        rec.violation(sig + "/jit-differs-from-eager", "jit(get_batch) returns a different batch than eager get_batch")
    ga, gb = leaves_np(g1), leaves_np(g3)
    if len(ga) != len(gb) or not all(a.shape == b.shape and np.array_equal(a, b) for a, b in zip(ga, gb)):
        rec.violation(sig + "/jit-state-differs-from-eager", "generator returned by jit(get_batch) differs from the eager one")
    rec.count("snapshots_compared")
    if snapshot(g) != before:
        rec.violation(sig + "/generator-modified-under-jit", "jit(get_batch) modified the generator")
    with jax.disable_jit():
        g4, b4 = guard.call(g.get_batch)
    if not all(close(a, b, 1e-12, 1e-14) for a, b in zip(leaves_np(b1), leaves_np(b4))):
        rec.violation(sig + "/disable_jit-differs", "op-by-op get_batch differs from the default eager one")
    rec.nontrivial((case["gen"], case["state"], case.get("x64", True)))
    rec.set_sample(gen=case["gen"], state=case["state"], x64=case.get("x64", True), batch_leaves=[x.reshape(-1)[:4] for x in leaves_np(b1)][:3])


def run_two_loaders(case, rec):
    """two loaders of the same configuration (different tables) drawn under jit in one process"""
    import jax

    rng = np.random.default_rng([case["seed"], 22])
    rec.count("generator_cases")
    jax.clear_caches()
    sig = "get_batch/%s/two-loaders-one-process" % case["gen"]
    outs = []
    for k in range(2):
        g, _ = guard.call(build_gen, case["gen"], case["seed"] + k, rng)
        ge, be = guard.call(g.get_batch)
        try:
            gj, bj = jax.jit(lambda gg: gg.get_batch())(g)
        except Exception as e:  # noqa: BLE001
            rec.violation(sig + "/jit-raises-eager-works",
                          "loader #%d: jit(get_batch) raised %s (eager get_batch works on the same object): %s"
                          % (k + 1, type(e).__name__, str(e)[:240]))
            return
        rec.count("mode_pairs_compared")
        if not all(close(a, b, 1e-12, 1e-14) for a, b in zip(leaves_np(be), leaves_np(bj))):
            rec.violation(sig + "/jit-differs-from-eager", "loader #%d: jit and eager batches differ" % (k + 1))
        outs.append(leaves_np(bj))
    rec.nontrivial((case["gen"], "two"))
    rec.set_sample(gen=case["gen"], first=outs[0][0].reshape(-1)[:4], second=outs[1][0].reshape(-1)[:4])
