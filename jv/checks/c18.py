"""C18 - on non-finite parameters training stops and returns the last finite ones.

Fault injection through public extension points only: a user-written optax transformation
with a step counter chained before the optimizer (NaN in the gradient of a chosen network
leaf / equation parameter at step k) or after it (NaN update), and a user equation that
returns NaN when a 'tick' parameter (incremented by the same chain) reaches k.
Observe: the return value of the real jinns.solve.  Oracle: the reference loop run with the
same injector, stopped after the first iteration that leaves a NaN in the parameters.
"""
import numpy as np

from .. import fields, guard, nets, refloop

PROPERTY = "C18"
LEVEL = "fault_enumeration"
RULE = ("fault sequences = injection iteration k in 0..n-1 (n=6, exhaustive) x origin (loss value, gradient of a "
        "network leaf, gradient of an equation parameter, optimizer update, one entry only of a multi-entry leaf in the "
        "gradient / in the update, an update making an equation parameter +inf followed by the NaN it causes, and a NaN in the loss VALUE only - finite gradient, training goes on - from iteration j on or at j only, followed by a real fault at k2 > j) x optimizer (sgd, adam) x loss (ODE, "
        "stationary) + fault-free controls + two faults k1<k2; non-trivial = a fault with k >= 1 (last finite "
        "parameters differ from the initial ones); distinct = distinct (loss, optimizer, origin, k[, k2])")
ASSUMPTIONS = [
    "a fault is any NaN in the parameters after the update of iteration k; the run must end right after k",
    "'later entries are left untouched' = they keep their initial value 0",
    "histories compared at rtol 1e-6 (see C07), NaN patterns exactly",
]
TIMEOUT = {"quick": 1800, "thorough": 5400}
MIN_COUNTERS = {"quick": {"fault_runs": 40, "faults_with_k_ge_1": 30, "control_runs": 1, "inf_then_nan_runs": 4, "fault_runs_with_refinement_enabled": 8, "runs_with_nan_loss_value_and_finite_gradient": 6},
                "thorough": {"fault_runs": 160, "faults_with_k_ge_1": 120, "control_runs": 4, "inf_then_nan_runs": 16, "fault_runs_with_refinement_enabled": 32, "runs_with_nan_loss_value_and_finite_gradient": 24}}
N_ITER = 6
ORIGINS = ["loss", "grad_nn", "grad_eq", "update", "grad_nn_entry", "update_entry"]


def exhaustive(tier):
    return True  # k x origin enumerated completely (quick: one loss/optimizer pair; thorough: all four)


def gen_cases(tier, seed):
    q = tier == "quick"
    combos = [("ode", "sgd")] if q else [("ode", "sgd"), ("ode", "adam"), ("statio", "sgd"), ("statio", "adam")]
    if q and seed % 4:
        combos = [[("ode", "sgd"), ("ode", "adam"), ("statio", "sgd"), ("statio", "adam")][seed % 4]]
    cases = []
    for loss, opt in combos:
        for origin in ORIGINS:
            for k in range(N_ITER):
                cases.append(dict(loss=loss, opt=opt, origin=origin, k=k, k2=None, seed=seed, cost=1.0))
        cases.append(dict(loss=loss, opt=opt, origin="none", k=-1, k2=None, seed=seed, cost=1.0))
        # an update that makes an equation parameter +inf (no NaN yet: not a failure, training goes on with it); the
        # NaN it causes appears at a later iteration, and the parameters held just before THAT one carry the inf
        for k in range(N_ITER - 1):
            cases.append(dict(loss=loss, opt=opt, origin="update_inf", k=k, k2=None, seed=seed, cost=1.0))
        for (o1, k1, o2, k2) in (("grad_nn", 1, "update", 3), ("update", 2, "loss", 4), ("loss", 0, "grad_eq", 5)):
            cases.append(dict(loss=loss, opt=opt, origin=o1, k=k1, origin2=o2, k2=k2, seed=seed, cost=1.0))
        # a NaN in the VALUE of the loss only (finite gradient, e.g. under stop_gradient or in the unselected branch of
        # a where): the parameters stay finite, so this is not a failure and training goes on; it lasts from iteration j
        # on (or for one iteration only), and a real fault follows at k2 > j: the parameters to return are those held
        # just before k2, which were produced by iterations whose loss value was NaN
        for (j, o2, k2, lasting) in ((0, "grad_eq", 3, True), (1, "update", 4, True), (2, "grad_nn", 5, True),
                                     (3, "update_entry", 4, True), (1, "grad_eq", 2, False), (2, "update", 5, False),
                                     (0, "none", None, True)):
            cases.append(dict(loss=loss, opt=opt, origin="loss_value_only", k=j, origin2=o2, k2=k2, lasting=lasting,
                              seed=seed, cost=1.0))
    return cases


_VALUE_ONLY = {}


def ValueOnlyNaN(**kw):
    """the user's loss wrapped so that its VALUE is NaN from iteration j on (or at j only) while its gradient stays finite"""
    if "cls" not in _VALUE_ONLY:
        import equinox as eqx
        import jax
        import jax.numpy as jnp

        class _ValueOnlyNaN(eqx.Module):
            inner: eqx.Module
            j: jax.Array
            lasting: bool = eqx.field(static=True)

            def __call__(self, params, batch):
                val, terms = self.inner(params, batch)
                tick = jnp.sum(params.eq_params["tick"])
                hit = (tick >= self.j) if self.lasting else (tick == self.j)
                return val + jax.lax.stop_gradient(jnp.where(hit, jnp.nan, 0.0)), terms

        _VALUE_ONLY["cls"] = _ValueOnlyNaN
    return _VALUE_ONLY["cls"](**kw)


def make_chain(base, faults):
    """faults: list of (origin, k) with origin in grad_nn / grad_eq / update"""
    import equinox as eqx
    import jax.numpy as jnp
    import optax

    def injector(stage):
        mine = [(o, k) for o, k in faults if (o.startswith("update")) == (stage == "post") and o != "loss"]

        def init(params):
            return jnp.zeros((), jnp.int32)

        def update(updates, state, params=None):
            for o, k in mine:
                hit = jnp.where(state == k, jnp.nan, 0.0)
                if o == "update_inf":
                    updates = eqx.tree_at(lambda t: t.eq_params["theta"], updates,
                                          replace_fn=lambda x: x + jnp.where(state == k, jnp.inf, 0.0))
                elif o == "grad_eq":
                    updates = eqx.tree_at(lambda t: t.eq_params["theta"], updates, replace_fn=lambda x: x + hit)
                elif o.endswith("_entry"):
                    # NaN in ONE entry of a multi-entry leaf (the other entries and leaves stay finite)
                    updates = eqx.tree_at(lambda t: t.nn_params.A, updates, replace_fn=lambda x: x.at[0, 1].add(hit))
                else:
                    updates = eqx.tree_at(lambda t: t.nn_params.C0, updates, replace_fn=lambda x: x + hit)
            return updates, state + 1

        return optax.GradientTransformation(init, update)

    def tick_inc():
        def init(params):
            return optax.EmptyState()

        def update(updates, state, params=None):
            updates = eqx.tree_at(lambda t: t.eq_params["tick"], updates, replace_fn=lambda x: jnp.ones_like(x))
            return updates, state

        return optax.GradientTransformation(init, update)

    return optax.chain(injector("pre"), base, injector("post"), tick_inc())


def run_case(case, rec):
    import jax
    import jax.numpy as jnp
    import jinns
    import optax
    from jinns.parameters import Params

    from .. import eqs, gens

    rng = np.random.default_rng([case["seed"], 18])
    kind = case["loss"]
    D = 1 if kind == "ode" else 2
    eqt = "ODE" if kind == "ode" else "statio_PDE"
    net = nets.Net(fields.TrigField(case["seed"] + 3, D, 1), eqt, reads=("theta", "phi"))
    spec = eqs.ResidSpec(case["seed"] + 3, 2, 1, D)
    value_only = case["origin"] == "loss_value_only"
    faults = [(case["origin"], case["k"])] if case["origin"] != "none" and not value_only else []
    if case.get("k2") is not None:
        faults.append((case["origin2"], case["k2"]))
    kloss = [k for o, k in faults if o == "loss"]
    dyn = eqs.tick_module(spec, kind, kloss[0] if kloss else -1)
    params = Params(nn_params=net.nn_params(),
                    eq_params={"theta": jnp.asarray(0.8), "phi": jnp.asarray(0.3), "kappa": jnp.asarray(-0.6),
                               "tick": jnp.asarray(0.0)})
    u = net.pinn()
    if kind == "ode":
        dk = jinns.parameters.DerivativeKeysODE.from_str(params, dyn_loss="both", initial_condition="both", observations="both")
        loss = jinns.loss.LossODE(u=u, dynamic_loss=dyn, initial_condition=(0.0, jnp.asarray([0.4])), derivative_keys=dk, params=params)
        gd = dict(kind="ode", key=case["seed"] % 997, nt=7, bt=3, tmin=0.0, tmax=1.0)
        if case["k"] % 3 == 2 and not value_only:
            # the same fault while another option of solve() is in use: a generator with residual-adaptive refinement
            # switched on (burn-in longer than the run: no refinement step, but the refinement code path is taken)
            gd.update(nt=9, nt_start=7, rar=dict(start_iter=50, update_every=2, sample_size_times=4, selected_sample_size_times=1))
            rec.count("fault_runs_with_refinement_enabled")
        data = gens.make_generator(gd)
    else:
        dk = jinns.parameters.DerivativeKeysPDEStatio.from_str(params, dyn_loss="both", boundary_loss="both", norm_loss="both", observations="both")
        loss = jinns.loss.LossPDEStatio(u=u, dynamic_loss=dyn, omega_boundary_fun=lambda dx: 0.2, omega_boundary_condition="dirichlet",
                                        derivative_keys=dk, params=params)
        gd = dict(kind="statio", key=case["seed"] % 997, n=7, b=3, dim=2, min_pts=[-1.0, 0.0], max_pts=[1.0, 2.0], nb=16, bb=3)
        if case["k"] % 3 == 2 and not value_only:
            gd.update(n=9, n_start=7, rar=dict(start_iter=50, update_every=2, sample_size_omega=4, selected_sample_size_omega=1))
            rec.count("fault_runs_with_refinement_enabled")
        data = gens.make_generator(gd)
    if value_only:
        loss = ValueOnlyNaN(inner=loss, j=jnp.asarray(float(case["k"])), lasting=bool(case["lasting"]))
        rec.count("runs_with_nan_loss_value_and_finite_gradient")
    base = optax.sgd(1e-3) if case["opt"] == "sgd" else optax.adam(1e-3)
    opt = make_chain(base, faults)
    tracked = Params(nn_params=None, eq_params={"theta": True, "phi": None, "kappa": None, "tick": True})
    n = N_ITER
    # solve's default verbosity (prints from inside the loop and when it stops) for every other fault position
    verb = dict(print_loss_every=2) if case["k"] % 2 == 1 else dict(verbose=False)
    if "verbose" not in verb:
        rec.count("runs_with_default_verbosity")
    out = guard.call_supported(jinns.solve, n_iter=n, init_params=params, data=data, loss=loss, optimizer=opt,
                     tracked_params=tracked, **verb)
    ref = refloop.ref_loop(n, params, data, loss, opt, tracked=tracked, prime=1)
    first = min([k for _, k in faults]) if faults else None
    sig = "nan-stop/%s" % ("value-only-nan-then-fault" if value_only else case["origin"] if not case.get("k2") else "two-faults")
    label = "%s/%s origin=%s k=%s k2=%s" % (kind, case["opt"], case["origin"], case["k"], case.get("k2"))
    if faults:
        rec.count("fault_runs")
        if first >= 1:
            rec.count("faults_with_k_ge_1")
            rec.nontrivial((kind, case["opt"], case["origin"], case["k"], case.get("origin2"), case.get("k2")))
    else:
        rec.count("control_runs")
        rec.nontrivial((kind, case["opt"], "control"))
    # the reference itself must have seen the fault where it was injected
    if case["origin"] == "update_inf":
        rec.count("inf_then_nan_runs")
        if not (first + 1 < ref["n_done"] <= n) or not refloop.has_nan(ref["final_params"]) or refloop.has_nan(ref["params"]):
            rec.inconcl("inf injected at %d: the reference loop did not end on a later NaN (n_done=%d)" % (first, ref["n_done"]))
            return
        if not any(np.any(np.isinf(l)) for l in refloop.leaves(ref["params"])):
            rec.inconcl("inf injected at %d but the parameters held before the NaN iteration are finite" % first)
            return
    elif faults and ref["n_done"] != first + 1:
        rec.inconcl("fault injected at %d but the reference loop stopped after %d iterations" % (first, ref["n_done"]))
        return
    if not faults and ref["n_done"] != n:
        rec.inconcl("control run: reference stopped early")
        return
    params_out, hist, terms, data_out, _, opt_state, stored, _, _ = out
    h = np.asarray(hist)
    rec.set_sample(case={k: v for k, v in case.items() if k != "cost"}, history_solve=h, history_reference=ref["hist"],
                   returned_theta=float(np.asarray(params_out.eq_params["theta"])),
                   reference_theta=float(np.asarray(ref["params"].eq_params["theta"])))
    if refloop.has_nan(params_out):
        rec.violation(sig + "/returned-params-contain-nan", "%s: returned parameters contain NaN" % label)
    ok, d = refloop.tree_close(params_out, ref["params"], 1e-6, 1e-9)
    if not ok:
        which = ""
        okf, _ = refloop.tree_close(params_out, params, 1e-12, 0)
        if faults and first >= 1 and okf:
            which = "/initial-params-returned"
        elif faults and first >= 2:
            which = "/not-the-params-held-just-before-the-fault"
        rec.violation(sig + "/returned-params" + which,
                      "%s: returned parameters differ from those held just before the failing iteration (%s)" % (label, d))
    nd = ref["n_done"]
    if not np.allclose(h[:nd], ref["hist"][:nd], rtol=1e-6, atol=1e-9, equal_nan=True):
        rec.violation(sig + "/history-up-to-fault", "%s: loss history up to the failing iteration differs: %s vs %s"
                      % (label, h[:nd], ref["hist"][:nd]))
    if np.any(h[nd:] != 0.0):
        rec.violation(sig + "/run-did-not-stop-after-fault", "%s: entries after iteration %d were written: %s"
                      % (label, nd - 1, h[nd:]))
    for k_, v in ref["hist_terms"].items():
        a = np.asarray(terms[k_])
        if not np.allclose(a[:nd], v[:nd], rtol=1e-6, atol=1e-9, equal_nan=True) or np.any(a[nd:] != 0.0):
            rec.violation(sig + "/term-history", "%s: history of term %s differs (up to fault) or was written after it" % (label, k_))
            break
    ok, d = refloop.tree_close(stored, ref["tracked"], 1e-6, 1e-9)
    if not ok:
        rec.violation(sig + "/tracked-history", "%s: tracked parameter history differs from the reference (%s)" % (label, d))
