"""C14 - space-time batches are exact cartesian products (or exact pairings).

Observe: PDENonStatioBatch objects from the real get_batch() over histories that cross
reshuffles of the three streams, together with the generator's stores.  Oracle: the factors
are recovered from the batch itself and must (a) be rows of the stores, (b) reproduce the
whole batch by the product / pairing rule, for the interior and for each facet.
"""
import numpy as np

from .. import gens, guard

PROPERTY = "C14"
LEVEL = "exploration"
RULE = ("cases = dim (1,2) x mode (cartesian, paired) x (temporal, spatial, border) batch sizes in "
        "1..5 x keys; 20 batches per history (stream epochs have different lengths so they drift); "
        "a batch is non-trivial when it has >= 2 distinct times and >= 2 distinct spatial points; "
        "distinct = distinct (dim, mode, sizes, key, draw index)")
ASSUMPTIONS = [
    "the time interval [10,11] is disjoint from the spatial box, so a time column in the wrong place is visible",
    "one temporal batch per get_batch call: the interior and every border facet share the same time factor",
    "paired mode requires equal batch sizes (other combinations are rejected by jinns -> unsupported)",
]
TIMEOUT = {"quick": 900, "thorough": 3000}
MIN_COUNTERS = {"quick": {"batches_checked": 800, "border_facets_checked": 800},
                "thorough": {"batches_checked": 8000, "border_facets_checked": 8000}}


def gen_cases(tier, seed):
    q = tier == "quick"
    rng = np.random.default_rng(seed + 1414)
    cases = []
    sizes = [(bt, b, bb) for bt in range(1, 6) for b in range(1, 6) for bb in range(1, 6)]
    pick = rng.choice(len(sizes), 40 if q else len(sizes), replace=False)
    keys = [seed * 7 + k for k in range(1 if q else 3)]
    for i in pick:
        bt, b, bb = sizes[int(i)]
        for dim in (1, 2):
            cases.append(dict(dim=dim, cartesian=True, bt=bt, b=b, bb=bb, keys=keys, cost=1.0, x64=bool((bt + b + bb + dim) % 2)))
        if bt == b:
            for dim in (1, 2):
                cases.append(dict(dim=dim, cartesian=False, bt=bt, b=b, bb=b if dim == 2 else bb,
                                  keys=keys, cost=1.0))
    # generators without a border (omega_border_batch_size=None): the interior batch is still the exact product / pairing
    for (bt, b) in ((2, 2), (3, 3), (2, 4), (1, 3)):
        for dim in (1, 2):
            cases.append(dict(dim=dim, cartesian=True, bt=bt, b=b, bb=None, keys=keys[:1], cost=0.5))
            if bt == b:
                cases.append(dict(dim=dim, cartesian=False, bt=bt, b=b, bb=None, keys=keys[:1], cost=0.5))
    # mismatching paired sizes: must be rejected explicitly, not mis-paired
    for (bt, b) in ((2, 3), (3, 1)):
        cases.append(dict(dim=2, cartesian=False, bt=bt, b=b, bb=b, keys=keys[:1], cost=0.3))
    return cases


def _member(rows, store):
    ks = {gens.rowkey(r) for r in np.asarray(store).reshape(len(store), -1)}
    return all(gens.rowkey(r) in ks for r in np.asarray(rows).reshape(len(rows), -1))


def run_case(case, rec):
    import jax

    dim, cart, bt, b, bb = case["dim"], case["cartesian"], case["bt"], case["b"], case["bb"]
    mode = "cartesian" if cart else "paired"
    for key in case["keys"]:
        d = dict(kind="nonstatio", key=key, n=2 * b + 1, b=b, dim=dim, min_pts=[-1.0, 2.0][:dim],
                 max_pts=[1.0, 3.0][:dim], nb=4 * ((bb or 0) + 2) if dim == 2 else 2, bb=bb if dim == 2 else 1,
                 nt=3 * bt + 1, bt=bt, tmin=10.0, tmax=11.0, cartesian=cart)
        if (key + bt + b + dim) % 3 == 1:
            # the option given as a numpy boolean (what a numpy comparison returns) rather than the Python object
            d["cartesian_np"] = True
            rec.count("option_given_as_numpy_boolean_%s" % mode)
        if bb is None:
            d.update(nb=None, bb=None)
            rec.count("generators_without_border")
        legit = cart or bt == b  # documented configurations: a refusal of these is a failure, not an unsupported input
        try:
            g = (guard.call_supported if legit else guard.call)(gens.make_generator, d)
        except guard.Unsupported as u:
            rec.unsupp("%s bt=%d b=%d: %s" % (mode, bt, b, u.reason[:80]))
            return
        except guard.Crash as c:
            rec.violation("%s/dim%d/%s/constructor-refused" % (mode, dim, "no-border" if bb is None else "border"),
                          "documented configuration refused by the constructor: %s" % c)
            return
        step = jax.jit(lambda gg: gg.get_batch())
        for k in range(20):
            g, batch = guard.call(step, g)
            tx = np.asarray(batch.times_x_inside_batch)
            tdx = np.asarray(batch.times_x_border_batch) if batch.times_x_border_batch is not None else None
            times, omega = np.asarray(g.times), np.asarray(g.omega)
            border = np.asarray(g.omega_border) if g.omega_border is not None else None
            rec.count("batches_checked")
            sig = "%s/dim%d" % (mode, dim)
            rows = bt * b if cart else b
            if tx.shape != (rows, 1 + dim):
                rec.violation(sig + "/shape", "interior batch shape %s, expected %s" % (tx.shape, (rows, 1 + dim)))
                continue
            if cart:
                T = tx[::b, 0]
                X = tx[:b, 1:]
                exp = np.concatenate([np.repeat(T[:, None], b, axis=0), np.tile(X, (bt, 1))], axis=1)
            else:
                T = tx[:, 0]
                X = tx[:, 1:]
                exp = tx
            if not np.array_equal(tx, exp):
                rec.violation(sig + "/interior-not-product",
                              "interior batch is not the time-major product of its own factors",
                              batch=tx, T=T, X=X)
            if not _member(T[:, None], times[:, None]):
                rec.violation(sig + "/time-factor-not-in-store",
                              "column 0 of the interior batch does not hold stored time points", T=T)
            if len(set(T.tolist())) != len(T):
                rec.violation(sig + "/time-factor-repeats", "the time factor holds a time point twice", T=T)
            if not _member(X, omega):
                rec.violation(sig + "/space-factor-not-in-store",
                              "columns 1.. of the interior batch do not hold stored spatial points", X=X)
            if len({gens.rowkey(r) for r in X}) != len(X):
                rec.violation(sig + "/space-factor-repeats", "the spatial factor holds a point twice", X=X)
            if len(set(T.tolist())) >= 2 and len(X) >= 2:
                rec.nontrivial((dim, mode, bt, b, bb, key, k))
            # ---- border
            if bb is None:
                if dim == 2 and tdx is not None:
                    rec.violation(sig + "/border-not-none", "a border batch is returned although none was requested")
                if dim == 2 or tdx is None:
                    continue
            nf = 2 * dim
            if dim == 1:
                exp_shape = (bt, 2, 2)
            else:
                exp_shape = ((bt * bb) if cart else bb, 3, 4)
            if tdx.shape != exp_shape:
                rec.violation(sig + "/border-shape", "border batch shape %s, expected %s" % (tdx.shape, exp_shape))
                continue
            for f in range(nf):
                M = tdx[:, :, f]
                rec.count("border_facets_checked")
                if dim == 1:
                    Tf = M[:, 0]
                    DX = M[:1, 1:]
                    expf = np.concatenate([Tf[:, None], np.repeat(DX, len(Tf), axis=0)], axis=1)
                    store_f = border.reshape(-1)[f:f + 1][:, None]
                    Tref = T if cart else tx[:, 0]
                    if not cart:
                        Tref = tx[:, 0]
                elif cart:
                    Tf = M[::bb, 0]
                    DX = M[:bb, 1:]
                    expf = np.concatenate([np.repeat(Tf[:, None], bb, axis=0), np.tile(DX, (bt, 1))], axis=1)
                    store_f = border[:, :, f]
                    Tref = T
                else:
                    Tf = M[:, 0]
                    DX = M[:, 1:]
                    expf = M
                    store_f = border[:, :, f]
                    Tref = T
                if not np.array_equal(M, expf):
                    rec.violation(sig + "/border-not-product",
                                  "facet %d of the border batch is not the time-major product of its factors" % f,
                                  facet=f, M=M)
                if not _member(DX, store_f):
                    rec.violation(sig + "/border-factor-not-in-store",
                                  "facet %d: spatial rows are not stored border points of that facet" % f,
                                  facet=f, DX=DX)
                if dim == 1 and not cart:
                    # documented: the product is executed anyway in 1-D; time factor = the batch's times
                    ok_t = np.array_equal(np.asarray(Tf), np.asarray(tx[:, 0]))
                else:
                    ok_t = np.array_equal(np.asarray(Tf), np.asarray(Tref))
                if not ok_t:
                    rec.violation(sig + "/border-time-factor-differs",
                                  "facet %d: time factor %s differs from the interior's temporal batch %s"
                                  % (f, np.asarray(Tf)[:4], np.asarray(Tref)[:4]), facet=f)
            if k == 0:
                rec.set_sample(dim=dim, mode=mode, bt=bt, b=b, bb=bb, key=key, interior=tx, border_facet0=tdx[:, :, 0])
