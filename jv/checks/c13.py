"""C13 - a system loss is the weighted composition of its equations and unknowns.

Observe: (total, terms) of the real SystemLossODE / SystemLossPDE; the value computed by
harness-written system equations from the arguments they receive (the time coefficient is
7x the space coefficients, so (t, x) vs (x, t) shows in the value).  Oracle: composition of
the real single losses on the same data (one per unknown, no dynamic part) plus the numpy
dynamic-term formula; a 1x1 system must equal the plain loss.
"""
import numpy as np

from .. import fields, guard, nets
from ..core import close

PROPERTY = "C13"
LEVEL = "exploration"
RULE = ("cases = ODE / stationary / non-stationary systems x E equations (1..3) x U unknowns (1..3), arbitrary key "
        "names x weight specification (scalar, per-key dict, class default) x per-unknown initial / boundary / "
        "normalisation / observation specifications (some unknowns without) x observation batches hand-built or "
        "from the real multi-network loader x batch size; non-trivial = expected dynamic term > 1e-6; distinct = "
        "distinct configuration tuples")
ASSUMPTIONS = [
    "scalar and per-key dict weights are the documented forms: rejecting one of them is a violation",
    "a term whose weight is left at the class default is only compared when that default is a number",
    "equations use the first output of every network and the shared parameter theta",
]
TIMEOUT = {"quick": 1800, "thorough": 5400}
MIN_COUNTERS = {"quick": {"system_evaluations": 60, "non_square_systems": 10, "dict_weight_systems": 10,
                          "one_by_one_systems": 4, "nonstatio_systems": 15, "mixed_stationary_nonstationary_systems": 6,
                          "ode_systems_with_one_network_object_for_two_unknowns_with_initial_conditions": 2,
                          "boundary_terms_restricted_to_a_component_nonstatio": 3, "boundary_terms_restricted_to_a_component_statio": 3,
                          "systems_with_a_heterogeneous_parameter": 12},
                "thorough": {"system_evaluations": 800, "non_square_systems": 150, "dict_weight_systems": 150,
                             "one_by_one_systems": 50, "nonstatio_systems": 200,
                             "systems_with_a_heterogeneous_parameter": 150}}
EQ0 = {"theta": 0.8, "phi": 0.3, "kappa": -0.6}
NAMES = ["u", "p", "species 3", "0", "wolf"]
ENAMES = ["mass", "momentum", "eq-3", "0", "u"]


def gen_cases(tier, seed):
    rng = np.random.default_rng(seed + 1313)
    q = tier == "quick"
    cases = []
    for k in range(90 if q else 1000):
        kind = ["ode", "statio", "nonstatio"][k % 3]
        E, U = int(rng.integers(1, 4)), int(rng.integers(1, 4))
        if k % 15 == 0:
            E = U = 1
        avail = {"ode": ["ic", "obs"], "statio": ["boundary", "norm", "obs"],
                 "nonstatio": ["ic", "boundary", "norm", "obs"]}[kind]
        names = [NAMES[i] for i in rng.permutation(len(NAMES))[:U]]
        eqn = [ENAMES[i] for i in rng.permutation(len(ENAMES))[:E]]
        per_u = {n: [p for p in avail if rng.integers(3) > 0] for n in names}
        if k % 9 in (3, 4, 5):
            # partial specifications and no observation anywhere: some unknowns carry one constraint each, the
            # others none at all (no observation part in the batch)
            U = max(U, 2)
            names = [NAMES[i] for i in rng.permutation(len(NAMES))[:U]]
            non_obs = [p for p in avail if p != "obs"]
            per_u = {n: ([non_obs[(k + i) % len(non_obs)]] if i % 2 == 0 else []) for i, n in enumerate(names)}
        force_bdim = False
        if kind == "ode" and k % 12 == 9 and k % 9 not in (3, 4, 5):
            # three unknowns, the first and the third with an initial condition each; with the odd case seed they
            # share ONE network object (same output count): every unknown keeps its own initial condition
            U = 3
            names = (names + [n_ for n_ in NAMES if n_ not in names])[:U]
            per_u = {n: per_u.get(n, []) for n in names}
            for n_ in (names[0], names[2]):
                if "ic" not in per_u[n_]:
                    per_u[n_] = ["ic"] + per_u[n_]
        if kind != "ode" and k % 5 == 2 and k % 9 not in (3, 4, 5):
            # guaranteed presence of a boundary condition restricted to one component of a two-output unknown (the
            # second unknown has two outputs unless it carries a normalisation part)
            U = max(U, 2)
            names = (names + [n_ for n_ in NAMES if n_ not in names])[:U]
            per_u = {n: per_u.get(n, []) for n in names}
            per_u[names[1]] = ["boundary"] + [p for p in per_u[names[1]] if p in ("ic", "obs")]
            force_bdim = True
        cases.append(dict(kind=kind, force_bdim=force_bdim, d=0 if kind == "ode" else int(rng.integers(1, 3)), E=E, U=U, names=names,
                          eqnames=eqn, per_u=per_u, weights=["scalar", "dict", "default"][int(rng.integers(3))],
                          obs_src=["hand", "multi"][int(rng.integers(2))], B=int(rng.integers(1, 7)),
                          seed=seed * 100000 + k, cost=2.0, x64=bool(k % 7 != 3), hetero=bool(k % 4 == 2), warr=[0, 1, 0, 2][k % 4]))
    # built-in two-equation system (mass conservation + Navier-Stokes) on pointwise and on separable networks
    for k in range(10 if q else 100):
        cases.append(dict(kind="ns_system", net=["pinn", "spinn"][k % 2], weights=["scalar", "dict"][(k // 2) % 2],
                          B=int(rng.integers(2, 5)), seed=seed * 100000 + 70000 + k, cost=3.0))
    # a system mixing a stationary unknown (a coefficient field k(x)) with a non-stationary one (u(t,x))
    for k in range(8 if q else 80):
        cases.append(dict(kind="mixed_system", d=1 + k % 2, first=["k", "u"][(k // 2) % 2], obs=bool((k // 4) % 2),
                          B=int(rng.integers(2, 7)), seed=seed * 100000 + 80000 + k, cost=2.0))
    return cases


class SystemProblem:
    def __init__(self, case, rng):
        from .. import eqs

        self.case, self.kind, self.d = case, case["kind"], case["d"]
        kind, d = self.kind, self.d
        self.D = {"ode": 1, "statio": d, "nonstatio": d + 1}[kind]
        self.eqt = {"ode": "ODE", "statio": "statio_PDE", "nonstatio": "nonstatio_PDE"}[kind]
        self.names, self.eqnames = list(case["names"]), list(case["eqnames"])
        self.rng = rng
        if "per_u" in case:
            self.per_u = case["per_u"]
        else:
            self.per_u = {n: list(case.get("parts", [])) for n in self.names}
        # the normalisation term is defined for scalar u: unknowns with a norm part have one output
        self.nets = {n: nets.Net(fields.TrigField(case["seed"] + 7 * i, self.D,
                                                  1 if "norm" in self.per_u[n] else 1 + i % 2),
                                 self.eqt, reads=("phi",)) for i, n in enumerate(self.names)}
        self.specs = {e: eqs.SysSpec(case["seed"] + 13 * j, 1 if case.get("scalar_equations") else 1 + j % 2, self.names, self.D)
                      for j, e in enumerate(self.eqnames)}
        self.terms_avail = {"ode": ["ic", "obs"], "statio": ["boundary", "norm", "obs"],
                            "nonstatio": ["ic", "boundary", "norm", "obs"]}[kind]
        wmode = case.get("weights", "scalar")
        self.wmode = wmode
        T = ["dyn"] + self.terms_avail
        if wmode == "scalar":
            base = {t: float(np.round(rng.uniform(0.4, 2.5), 3)) for t in T}
            self.W = {t: ({e: base[t] for e in self.eqnames} if t == "dyn" else {n: base[t] for n in self.names}) for t in T}
            self.Wspec = base
        elif wmode == "dict":
            self.W = {t: ({e: float(np.round(rng.uniform(0.4, 2.5), 3)) for e in self.eqnames} if t == "dyn"
                          else {n: float(np.round(rng.uniform(0.4, 2.5), 3)) for n in self.names}) for t in T}
            # the user may write a weight dictionary in any key order: hand them over in a permuted insertion order
            self.Wspec = {t: {k: v[k] for k in [list(v)[i] for i in rng.permutation(len(v))]} for t, v in self.W.items()}
        else:  # class default: PDE 1.0 everywhere; ODE None (only dyn given)
            d1 = 1.0 if kind != "ode" else None
            base = {t: d1 for t in T}
            base["dyn"] = 1.0
            self.W = {t: ({e: 1.0 for e in self.eqnames} if t == "dyn" else {n: base[t] for n in self.names}) for t in T}
            self.Wspec = {"dyn": 1.0} if kind == "ode" else {}
        # per-unknown observation slices (only meaningful for multi-output unknowns); None = whole output
        self.obs_slice = {}
        for n in self.names:
            no = self.nets[n].n_out
            self.obs_slice[n] = None if (no == 1 or rng.integers(3) == 0) else [[0, 1], [1, 2]][int(rng.integers(2))]
        # per-unknown component selection of the boundary condition (same rule, drawn independently)
        self.bdim = {}
        for n in self.names:
            no = self.nets[n].n_out
            self.bdim[n] = None if (no == 1 or rng.integers(3) == 0) else [[0, 1], [1, 2]][int(rng.integers(2))]
            if case.get("force_bdim") and no > 1 and self.bdim[n] is None:
                self.bdim[n] = [[0, 1], [1, 2]][case["seed"] % 2]
        self.t0 = 0.25
        self.u0 = {n: rng.uniform(-1, 1, self.nets[n].n_out) for n in self.names}
        self.fb = {n: float(rng.uniform(-0.5, 0.5)) for n in self.names}
        self.V = 2.5
        # heterogeneous parameter: in ONE equation of the system theta is replaced by a function of the point
        # (and of another equation parameter); the other equations keep the caller's value
        self.het_eq = self.eqnames[case["seed"] % len(self.eqnames)] if case.get("hetero") else None
        hr = np.random.default_rng([case.get("seed", 0), 131])
        self.het = (float(hr.uniform(0.5, 1.5)), hr.uniform(-1, 1, self.D), float(hr.uniform(0.5, 1.5)))

    def het_np(self, z, eq):
        ha, hb, hc = self.het
        return ha + float(np.dot(hb, np.asarray(z, float))) + hc * float(np.sum(eq["kappa"]))

    def het_kw(self):
        """constructor arguments giving the equation its heterogeneous theta (jinns' calling convention per kind)"""
        import jax.numpy as jnp

        ha, hb, hc = self.het
        HB = jnp.asarray(hb)
        core = lambda z, params: ha + HB @ z + hc * jnp.sum(params.eq_params["kappa"])
        if self.kind == "ode":
            hj = lambda t, u, params: core(jnp.reshape(t, (1,)), params)
        elif self.kind == "statio":
            hj = lambda x, u, params: core(x, params)
        else:
            hj = lambda t, x, u, params: core(jnp.concatenate([t, x]), params)
        return {"eq_params_heterogeneity": {"theta": hj, "phi": None, "kappa": None}}

    # ------------------------------------------------------------------ real objects
    def loss(self):
        import jax.numpy as jnp
        import jinns
        from jinns.parameters import ParamsDict

        kind = self.kind
        # dictionaries are handed over in unrelated key orders (u_dict, nn_params, eq_params), and unknowns whose
        # fields have the same structure share ONE network object (only their parameters differ) in half of the cases
        perm = [self.names[i] for i in self.rng.permutation(len(self.names))]
        eqk = [list(EQ0)[i] for i in self.rng.permutation(len(EQ0))]
        self.params = ParamsDict(nn_params={n: self.nets[n].nn_params() for n in perm},
                                 eq_params={k: jnp.asarray(EQ0[k]) for k in eqk})
        u_dict = {n: self.nets[n].pinn() for n in self.names}
        if self.case.get("seed", 0) % 2:
            by_nout = {}
            for n in self.names:
                by_nout.setdefault(self.nets[n].n_out, u_dict[n])
                u_dict[n] = by_nout[self.nets[n].n_out]
        dyn = {e: self.specs[e].module(kind, **(self.het_kw() if e == self.het_eq else {})) for e in self.eqnames}
        name_of = {"dyn": "dyn_loss", "ic": "initial_condition", "boundary": "boundary_loss", "norm": "norm_loss",
                   "obs": "observations"}
        lwkw = {name_of[t]: v for t, v in self.Wspec.items()}
        if self.case.get("warr"):
            # the accepted spellings of one weight: Python number, 0-d array, (1,) array
            conv = (lambda v: jnp.asarray([v])) if self.case["warr"] == 1 else (lambda v: jnp.asarray(v))
            lwkw = {k: ({kk: (conv(vv) if isinstance(vv, float) else vv) for kk, vv in v.items()} if isinstance(v, dict)
                        else (conv(v) if isinstance(v, float) else v)) for k, v in lwkw.items()}
        has = lambda n, p: p in self.per_u[n]
        extra = {}
        if getattr(self, "derivative_keys_dict", None) is not None:
            extra["derivative_keys_dict"] = self.derivative_keys_dict
        if any(v is not None for v in self.obs_slice.values()):
            extra["obs_slice_dict"] = {n: (jnp.s_[...] if v is None else jnp.s_[v[0]:v[1]]) for n, v in self.obs_slice.items()}
        if kind == "ode":
            return jinns.loss.SystemLossODE(
                u_dict=u_dict, dynamic_loss_dict=dyn, **extra,
                initial_condition_dict={n: ((self.t0, jnp.asarray(self.u0[n])) if has(n, "ic") else None) for n in self.names},
                loss_weights=jinns.loss.LossWeightsODEDict(**lwkw), params_dict=self.params)
        kw = {}
        c0 = {n: jnp.asarray(self.u0[n]) for n in self.names}
        if kind == "statio":
            fbf = {n: (lambda dx, v=self.fb[n]: v) for n in self.names}
        else:
            fbf = {n: (lambda t, dx, v=self.fb[n]: v) for n in self.names}
            kw["initial_condition_fun_dict"] = {n: ((lambda x, c=c0[n]: c + 0.0 * jnp.sum(x)) if has(n, "ic") else None)
                                                for n in self.names}
        return jinns.loss.SystemLossPDE(
            u_dict=u_dict, dynamic_loss_dict=dyn, **extra,
            omega_boundary_fun_dict={n: (fbf[n] if has(n, "boundary") else None) for n in self.names},
            omega_boundary_condition_dict={n: ("dirichlet" if has(n, "boundary") else None) for n in self.names},
            **({"omega_boundary_dim_dict": {n: (None if v is None else jnp.s_[v[0]:v[1]]) for n, v in self.bdim.items()}}
               if any(v is not None for v in self.bdim.values()) else {}),
            norm_samples_dict={n: (jnp.asarray(self.norm_samples_n[n]) if has(n, "norm") else None) for n in self.names},
            norm_int_length_dict={n: (self.V_n[n] if has(n, "norm") else None) for n in self.names},
            loss_weights=jinns.loss.LossWeightsPDEDict(**lwkw), params_dict=self.params, **kw)

    def make_data(self, B):
        rng, kind, d, D = self.rng, self.kind, self.d, self.D
        self.B = B
        self.pts = rng.uniform(0, 1, (B, 1)) if kind == "ode" else rng.uniform(-1, 2, (B, D))
        self.norm_samples = rng.uniform(-1, 2, (3, max(d, 1)))
        # every unknown has its own normalisation sample set (sizes differ) and its own domain volume
        self.norm_samples_n = {n: (self.norm_samples if i == 0 else rng.uniform(-1, 2, (3 + i, max(d, 1))))
                               for i, n in enumerate(self.names)}
        self.V_n = {n: self.V * (1.0 + 0.6 * i) for i, n in enumerate(self.names)}
        if kind != "ode":
            nf = 2 * d
            cols = []
            for f in range(nf):
                p = rng.uniform(-1, 2, (B, d))
                p[:, f // 2] = [-1.0, 2.0][f % 2]
                cols.append(p)
            sp = np.stack(cols, -1)
            if kind == "nonstatio":
                sp = np.concatenate([np.repeat(rng.uniform(0, 1, (B, 1, 1)), nf, axis=2), sp], axis=1)
            self.border = sp
        self.obs_in = {n: rng.uniform(-1, 2, (B, D)) for n in self.names}
        self.obs_val = {n: rng.uniform(-1, 1, (B, self.nets[n].n_out if self.obs_slice[n] is None
                                               else self.obs_slice[n][1] - self.obs_slice[n][0])) for n in self.names}

    def any(self, p):
        return any(p in v for v in self.per_u.values())

    def batch(self, rows=None, param_batch=None, obs="hand"):
        import jax
        import jax.numpy as jnp
        import jinns

        sl = slice(None) if rows is None else rows
        kind = self.kind
        if kind == "ode":
            b = jinns.data.ODEBatch(temporal_batch=jnp.asarray(self.pts[sl, 0]))
        elif kind == "statio":
            b = jinns.data.PDEStatioBatch(inside_batch=jnp.asarray(self.pts[sl]),
                                          border_batch=jnp.asarray(self.border[sl]) if self.any("boundary") else None)
        else:
            b = jinns.data.PDENonStatioBatch(times_x_inside_batch=jnp.asarray(self.pts[sl]),
                                             times_x_border_batch=jnp.asarray(self.border[sl]) if self.any("boundary") else None)
        if self.any("obs"):
            if obs == "hand":
                od = {n: ({"pinn_in": jnp.asarray(self.obs_in[n][sl]), "val": jnp.asarray(self.obs_val[n][sl]), "eq_params": {}}
                          if "obs" in self.per_u[n] else None) for n in self.names}
            else:
                gen = jinns.data.DataGeneratorObservationsMultiPINNs(
                    self.B, {n: (jnp.asarray(self.obs_in[n]) if "obs" in self.per_u[n] else None) for n in self.names},
                    {n: (jnp.asarray(self.obs_val[n]) if "obs" in self.per_u[n] else None) for n in self.names},
                    key=jax.random.PRNGKey(3))
                _, od = gen.get_batch()
                # full-size batch = a permutation of the table: the mean over rows is unchanged
            b = jinns.data.append_obs_batch(b, od)
        if param_batch:
            b = jinns.data.append_param_batch(b, {k: jnp.asarray(v[sl]) for k, v in param_batch.items()})
        return b

    # ------------------------------------------------------------------ numpy expectation
    def expected(self, eq_rows=None):
        B = self.B
        eq_rows = eq_rows or [dict(EQ0)] * B
        out = {}
        dyn = 0.0
        for e in self.eqnames:
            vals = [float(np.sum(self.specs[e].resid(
                self.nets, self.pts[i], eq_rows[i],
                theta=self.het_np(self.pts[i], eq_rows[i]) if e == self.het_eq else None) ** 2)) for i in range(B)]
            dyn += self.W["dyn"][e] * float(np.mean(vals))
        out["dyn_loss"] = dyn
        W = self.W

        def wsum(t, f):
            tot = 0.0
            for n in self.names:
                if t in self.per_u[n]:
                    if W[t][n] is None:
                        return None
                    tot += W[t][n] * f(n)
            return tot

        if "ic" in self.terms_avail:
            if self.kind == "ode":
                out["initial_condition"] = wsum("ic", lambda n: float(np.mean(
                    [np.sum((self.nets[n].val([self.t0], eq_rows[i]) - self.u0[n]) ** 2) for i in range(B)])))
            else:
                out["initial_condition"] = wsum("ic", lambda n: float(np.mean(
                    [np.sum((self.u0[n] - self.nets[n].val(np.concatenate([[0.0], self.pts[i, 1:]]), eq_rows[i])) ** 2)
                     for i in range(B)])))
        def bsl(n, v):
            return v if self.bdim[n] is None else v[self.bdim[n][0]:self.bdim[n][1]]

        if "boundary" in self.terms_avail:
            out["boundary_loss"] = wsum("boundary", lambda n: sum(float(np.mean(
                [np.sum((bsl(n, self.nets[n].val(self.border[i, :, f], eq_rows[i])) - self.fb[n]) ** 2) for i in range(B)]))
                for f in range(self.border.shape[-1])))
        if "norm" in self.terms_avail and eq_rows[0] == eq_rows[-1]:
            def nrm(n):
                V, smp = self.V_n[n], self.norm_samples_n[n]
                if self.kind == "statio":
                    return float((V * np.mean([self.nets[n].val(x, eq_rows[0])[0] for x in smp]) - 1) ** 2)
                return float(np.mean([(V * np.mean([self.nets[n].val(np.concatenate([[self.pts[i, 0]], x]), eq_rows[0])[0]
                                                    for x in smp]) - 1) ** 2 for i in range(B)]))
            out["norm_loss"] = wsum("norm", nrm)
        def osl(n, v):
            return v if self.obs_slice[n] is None else v[self.obs_slice[n][0]:self.obs_slice[n][1]]

        out["observations"] = wsum("obs", lambda n: float(np.mean(
            [np.sum((osl(n, self.nets[n].val(self.obs_in[n][i], eq_rows[i])) - self.obs_val[n][i]) ** 2) for i in range(B)])))
        return {k: v for k, v in out.items() if v is not None}


def eqx_tree_at_obs_slice(loss, sl):
    """rebuild a plain loss with the given obs_slice (static field): through dataclasses.replace-like copy"""
    import dataclasses

    import jax.numpy as jnp

    obj = object.__new__(type(loss))
    for f in dataclasses.fields(loss):
        try:
            object.__setattr__(obj, f.name, getattr(loss, f.name))
        except AttributeError:
            pass
    object.__setattr__(obj, "obs_slice", jnp.s_[sl[0]:sl[1]])
    return obj


def run_ns_system(case, rec, rng):
    """SystemLossPDE(mass conservation, Navier-Stokes) on (velocity, pressure) networks, pointwise or separable;
    expected dynamic term from the documented expressions (numpy closed forms), mean over points / over the grid"""
    import itertools

    import jax.numpy as jnp
    import jinns
    from jinns.parameters import ParamsDict

    from .c02 import np_mass, np_ns

    J = lambda v: jnp.asarray(v, dtype=float)
    B = case["B"]
    spinn = case["net"] == "spinn"
    rec.count("system_evaluations")
    rec.count("ns_systems_%s" % case["net"])
    if spinn:
        fu = fields.SepField(case["seed"], 2, 2, 2)
        fp = fields.SepField(case["seed"] + 1, 2, 1, 1)
        nu_, np_ = nets.SNet(fu, "statio_PDE"), nets.SNet(fp, "statio_PDE")
        udict = {"vel": nu_.spinn(), "pre": np_.spinn()}
    else:
        fu = fields.TrigField(case["seed"], 2, 2)
        fp = fields.TrigField(case["seed"] + 1, 2, 1)
        nu_, np_ = nets.Net(fu, "statio_PDE"), nets.Net(fp, "statio_PDE")
        udict = {"vel": nu_.pinn(), "pre": np_.pinn()}
    rho, nu = float(rng.uniform(0.5, 2.0)), float(rng.uniform(0.2, 1.5))
    pd = ParamsDict(nn_params={"pre": np_.nn_params(), "vel": nu_.nn_params()}, eq_params={"nu": J(nu), "rho": J(rho)})
    wm, wn = float(np.round(rng.uniform(0.4, 2.5), 3)), float(np.round(rng.uniform(0.4, 2.5), 3))
    if case["weights"] == "dict":
        lw = jinns.loss.LossWeightsPDEDict(dyn_loss={"momentum": wn, "continuity": wm})
        rec.count("dict_weight_systems")
    else:
        wm = wn
        lw = jinns.loss.LossWeightsPDEDict(dyn_loss=wm)
    dyn = {"continuity": jinns.loss.MassConservation2DStatio(nn_key="vel"),
           "momentum": jinns.loss.NavierStokes2DStatio(u_key="vel", p_key="pre")}
    loss = guard.call(jinns.loss.SystemLossPDE, u_dict=udict, dynamic_loss_dict=dyn, loss_weights=lw, params_dict=pd)
    cols = rng.uniform(-0.5, 1.5, (B, 2))
    batch = jinns.data.PDEStatioBatch(inside_batch=J(cols), border_batch=None)
    try:
        total, terms = guard.call(loss.evaluate, pd, batch)
    except guard.Crash as c:
        rec.violation("system-pde/ns-system/%s/evaluate-crash/%s" % (case["net"], c.etype), "built-in NS system crashed: %s" % c)
        return
    pts = [np.array([cols[i, 0], cols[j, 1]]) for i, j in itertools.product(range(B), repeat=2)] if spinn else list(cols)
    em = float(np.mean([np_mass(fu, z) ** 2 for z in pts]))
    en = float(np.mean([np.sum(np_ns(fu, fp, z, rho, nu) ** 2) for z in pts]))
    exp = wm * em + wn * en
    got = float(terms["dyn_loss"])
    if exp > 1e-6:
        rec.nontrivial(("ns_system", case["net"], case["weights"], B, case["seed"]))
    rec.set_sample(kind="ns_system", net=case["net"], weights=case["weights"], B=B, dyn_loss=got, expected=exp,
                   continuity_mean=em, momentum_mean=en)
    if not close(got, exp, 1e-8, 1e-10):
        alt = wn * em + wm * en
        rec.violation("system-pde/ns-system/%s/dyn_loss%s" % (case["net"], "/weights-swapped" if close(got, alt, 1e-8, 1e-10) and wm != wn else ""),
                      "built-in system dyn_loss %r, expected w_c*mean(div^2) + w_m*mean(|NS|^2) = %r" % (got, exp))
    if not close(float(total), sum(float(v) for v in terms.values()), 1e-12, 1e-14):
        rec.violation("system-pde/total-not-sum", "total != sum of terms")


def run_mixed_system(case, rec, rng):
    """SystemLossPDE over a stationary unknown k(x) and a non-stationary unknown u(t,x), one equation
    du/dt - D k(x) lap_x u, an initial condition (and optionally observations) for u only; the two orders in which the
    unknowns can be listed.  Expected terms from the numpy twins of the analytic networks."""
    import jax
    import jax.numpy as jnp
    import jinns
    from jinns.parameters import ParamsDict

    J = lambda v: jnp.asarray(v, dtype=float)
    d, B = case["d"], case["B"]
    rec.count("system_evaluations")
    rec.count("mixed_stationary_nonstationary_systems")
    fk = fields.TrigField(case["seed"], d, 1)
    fu = fields.TrigField(case["seed"] + 1, 1 + d, 1)
    nk, nu_ = nets.Net(fk, "statio_PDE"), nets.Net(fu, "nonstatio_PDE")
    nets_ = {"k": nk.pinn(), "u": nu_.pinn()}
    order = ["k", "u"] if case["first"] == "k" else ["u", "k"]
    udict = {n: nets_[n] for n in order}
    D = float(rng.uniform(0.3, 1.5))
    pd = ParamsDict(nn_params={"k": nk.nn_params(), "u": nu_.nn_params()}, eq_params={"D": J(D)})

    class Hetero(jinns.loss.PDENonStatio):
        def equation(self, t, x, u_dict, params_dict):
            pu, pk = params_dict.extract_params("u"), params_dict.extract_params("k")
            u = lambda t_, x_: u_dict["u"](t_, x_, pu)[0]
            du_dt = jax.grad(u, 0)(t, x)[0]
            lap = jnp.trace(jax.hessian(u, 1)(t, x))
            return jnp.array([du_dt - params_dict.eq_params["D"] * u_dict["k"](x, pk)[0] * lap])

    al, be = float(rng.uniform(-1, 1)), rng.uniform(-1, 1, d)
    A_, B_ = J(al), J(be)
    u0j = lambda x: jnp.array([A_ + B_ @ x])
    wd, wi, wo = [float(np.round(v, 3)) for v in rng.uniform(0.4, 2.5, 3)]
    lw = jinns.loss.LossWeightsPDEDict(dyn_loss=wd, initial_condition=wi, observations=wo)
    try:
        loss = guard.call(jinns.loss.SystemLossPDE, u_dict=udict, dynamic_loss_dict={"diff": Hetero()}, loss_weights=lw,
                          initial_condition_fun_dict={n: (u0j if n == "u" else None) for n in order}, params_dict=pd)
    except guard.Crash as c:
        rec.violation("system-pde/mixed/%s-first/constructor-crash/%s" % (case["first"], c.etype),
                      "system of a stationary and a non-stationary unknown: constructor crashed: %s" % c)
        return
    tx = np.concatenate([rng.uniform(0, 1, (B, 1)), rng.uniform(-0.5, 1.5, (B, d))], axis=1)
    batch = jinns.data.PDENonStatioBatch(times_x_inside_batch=J(tx), times_x_border_batch=None)
    ob = None
    if case["obs"]:
        no = 1 + case["seed"] % 4
        ob = (rng.uniform(0, 1, (no, 1 + d)), rng.uniform(-1, 1, (no, 1)))
        batch = jinns.data.append_obs_batch(batch, {"u": {"pinn_in": J(ob[0]), "val": J(ob[1]), "eq_params": {}}, "k": None})
    try:
        total, terms = guard.call(loss.evaluate, pd, batch)
    except guard.Crash as c:
        rec.violation("system-pde/mixed/%s-first/evaluate-crash/%s" % (case["first"], c.etype),
                      "system of a stationary and a non-stationary unknown: evaluation crashed: %s" % c, obs=case["obs"])
        return
    res = []
    for row in tx:
        g_, H_ = fu.grad(row)[0], fu.hess(row)[0]
        res.append(g_[0] - D * fk.val(row[1:])[0] * sum(H_[i, i] for i in range(1, 1 + d)))
    exp = {"dyn_loss": wd * float(np.mean(np.square(res))),
           "initial_condition": wi * float(np.mean([(al + be @ row[1:] - fu.val(np.concatenate([[0.0], row[1:]]))[0]) ** 2 for row in tx]))}
    if ob is not None:
        exp["observations"] = wo * float(np.mean([(fu.val(z)[0] - v[0]) ** 2 for z, v in zip(*ob)]))
    rec.nontrivial(("mixed_system", d, case["first"], case["obs"], B, case["seed"]))
    rec.set_sample(kind="mixed_system", d=d, first=case["first"], obs=case["obs"], B=B, expected=exp,
                   got={k_: float(np.asarray(v).reshape(-1)[0]) for k_, v in terms.items()})
    for t_, e_ in exp.items():
        rec.count("terms_compared")
        got = float(np.asarray(terms[t_]).reshape(-1)[0])
        if not close(got, e_, 1e-8, 1e-10):
            rec.violation("system-pde/mixed/%s-first/%s" % (case["first"], t_),
                          "stationary k(x) + non-stationary u(t,x), unknowns listed %s: term %s = %r, expected %r"
                          % (order, t_, got, e_), order=order)
    tot_exp = sum(exp.values())
    if not close(float(np.asarray(total).reshape(-1)[0]), tot_exp, 1e-8, 1e-10):
        rec.violation("system-pde/mixed/%s-first/total" % case["first"],
                      "total %r, expected %r (unknowns listed %s)" % (float(np.asarray(total).reshape(-1)[0]), tot_exp, order))


def run_case(case, rec):
    import jax
    import jax.numpy as jnp
    import jinns
    from jinns.parameters import Params

    rng = np.random.default_rng([case["seed"], 13])
    if case["kind"] == "ns_system":
        return run_ns_system(case, rec, rng)
    if case["kind"] == "mixed_system":
        return run_mixed_system(case, rec, rng)
    sp = SystemProblem(case, rng)
    B = case["B"]
    sp.make_data(B)
    kind, E, U = case["kind"], case["E"], case["U"]
    sysname = "system-%s" % ("ode" if kind == "ode" else "pde")
    if sp.het_eq is not None:
        rec.count("systems_with_a_heterogeneous_parameter")
    rec.count("system_evaluations")
    if E != U:
        rec.count("non_square_systems")
    if case["weights"] == "dict":
        rec.count("dict_weight_systems")
    if kind == "nonstatio":
        rec.count("nonstatio_systems")
    if kind == "ode" and case["seed"] % 2 and len(sp.names) >= 3 and all("ic" in sp.per_u[n_] for n_ in (sp.names[0], sp.names[2])):
        rec.count("ode_systems_with_one_network_object_for_two_unknowns_with_initial_conditions")
    for n_ in sp.names:
        if "boundary" in sp.per_u[n_] and sp.bdim[n_] is not None:
            rec.count("boundary_terms_restricted_to_a_component_%s" % kind)
    try:
        loss = guard.call(sp.loss)
    except guard.Unsupported as u:
        if case["weights"] in ("scalar", "dict"):
            rec.violation("%s/%s-weights/rejected" % (sysname, case["weights"]),
                          "documented %s weight specification rejected at construction: %s" % (case["weights"], u.reason),
                          Wspec=sp.Wspec)
            return
        raise
    except guard.Crash as c:
        rec.violation("%s/constructor-crash/%s" % (sysname, c.etype), "system loss constructor crashed: %s" % c,
                      E=E, U=U, weights=case["weights"])
        return
    if (case["seed"] // 3) % 3 == 0:  # (seed % 3 selects the kind of system: decoupled from it)
        # another system with the same key names and other weight values is built in the same process before the first
        # one is evaluated (and never used): objects do not share state
        keep = (sp.params, sp.Wspec)
        scale = lambda v: ({k_: scale(x_) for k_, x_ in v.items()} if isinstance(v, dict) else 3.0 * v)
        sp.Wspec = scale(sp.Wspec)
        try:
            guard.call(sp.loss)
            rec.count("systems_evaluated_after_a_later_construction")
        except (guard.Unsupported, guard.Crash):
            pass  # (the first construction of the same specification succeeded: reported there if it fails)
        finally:
            sp.params, sp.Wspec = keep
    batch = sp.batch(obs=case["obs_src"])
    try:
        total, terms = guard.call(loss.evaluate, sp.params, batch)
    except guard.Crash as c:
        attrs = []
        if E != U:
            attrs.append("eq-count!=unknown-count")
        if sp.any("obs") and case["obs_src"] == "multi" and any("obs" not in v for v in sp.per_u.values()):
            attrs.append("multi-loader-with-unobserved-network")
        rec.violation("%s/evaluate-crash/%s/%s" % (sysname, "+".join(attrs) or "other", c.etype),
                      "system loss evaluation crashed: %s" % c, E=E, U=U, names=sp.names, eqnames=sp.eqnames,
                      per_u=sp.per_u, obs_src=case["obs_src"])
        return
    # a weight given as a (1,) array may come back as a one-element array: read every value as the scalar it holds (an
    # array with more than one entry is not a loss value)
    def _scalar(name, v):
        a = np.asarray(v)
        if a.size != 1:
            rec.violation("%s/%s/not-a-scalar" % (sysname, name), "%s has shape %s" % (name, a.shape))
            return float("nan")
        return float(a.reshape(()))

    total = _scalar("total", total)
    terms = {k_: _scalar(k_, v_) for k_, v_ in terms.items()}
    exp = sp.expected()
    if exp["dyn_loss"] > 1e-6:
        rec.nontrivial((kind, case["d"], E, U, tuple(sp.names), tuple(sp.eqnames), case["weights"],
                        tuple(sorted((n, tuple(v)) for n, v in sp.per_u.items())), case["obs_src"], B))
    rec.set_sample(kind=kind, E=E, U=U, names=sp.names, eqnames=sp.eqnames, weights=sp.Wspec, per_unknown=sp.per_u,
                   terms={k: float(v) for k, v in terms.items()}, expected=exp)
    s = sum(float(v) for v in terms.values())
    if not close(float(total), s, 1e-12, 1e-14):
        rec.violation("%s/total-not-sum" % sysname, "total %r != sum of terms %r" % (float(total), s))
    for t, e in exp.items():
        got = float(terms[t])
        rec.count("terms_compared")
        if not close(got, e, 1e-8, 1e-10):
            sig = "%s/%s/%s" % (sysname, kind, t)
            if t == "dyn_loss" and kind == "nonstatio":
                # does the swapped argument order explain it?
                alt = 0.0
                for en in sp.eqnames:
                    vals = []
                    for i in range(B):
                        z = sp.pts[i]
                        if sp.d == 1:
                            zz = z[::-1]
                            us = np.array([sp.nets[k].val(zz, EQ0)[0] for k in sp.names])
                            r = sp.specs[en].A @ us + sp.specs[en].Bz @ zz + sp.specs[en].C * EQ0["theta"]
                            vals.append(float(np.sum(r ** 2)))
                    if vals:
                        alt += sp.W["dyn"][en] * float(np.mean(vals))
                if sp.d == 1 and close(got, alt, 1e-8, 1e-10):
                    sig += "/arg-order-x-t"
            rec.violation(sig, "system term %s = %r, expected %r (E=%d U=%d weights=%s)" % (t, got, e, E, U, case["weights"]),
                          got=got, expected=e, weights=sp.Wspec)
    # ---- composition of the real single losses (one per unknown, no dynamic part)
    for n in sp.names:
        single_case = dict(case, n_out=sp.nets[n].n_out)
    if E == 1 and U == 1:
        rec.count("one_by_one_systems")
        # 1x1 system == plain loss with the same equation wrapped for one network
        n, e = sp.names[0], sp.eqnames[0]
        from .. import eqs

        spec = sp.specs[e]

        if kind == "ode":
            class One(jinns.loss.ODE):
                inner: object

                def equation(self, t, u, params):
                    from jinns.parameters import ParamsDict
                    return self.inner.equation(t, {n: u}, ParamsDict(nn_params={n: params.nn_params}, eq_params=params.eq_params))
        elif kind == "statio":
            class One(jinns.loss.PDEStatio):
                inner: object

                def equation(self, x, u, params):
                    from jinns.parameters import ParamsDict
                    return self.inner.equation(x, {n: u}, ParamsDict(nn_params={n: params.nn_params}, eq_params=params.eq_params))
        else:
            class One(jinns.loss.PDENonStatio):
                inner: object

                def equation(self, t, x, u, params):
                    from jinns.parameters import ParamsDict
                    return self.inner.equation(t, x, {n: u}, ParamsDict(nn_params={n: params.nn_params}, eq_params=params.eq_params))
        dl = One(inner=spec.module(kind), **(sp.het_kw() if sp.het_eq == e else {}))
        p1 = Params(nn_params=sp.params.nn_params[n], eq_params=sp.params.eq_params)
        u = sp.nets[n].pinn()
        has = lambda p: p in sp.per_u[n]
        W = {t: (v[e] if t == "dyn" else v[n]) for t, v in sp.W.items()}
        Wn = {k: (1.0 if v is None else v) for k, v in W.items()}
        if kind == "ode":
            plain = jinns.loss.LossODE(u=u, dynamic_loss=dl, initial_condition=(sp.t0, jnp.asarray(sp.u0[n])) if has("ic") else None,
                                       loss_weights=jinns.loss.LossWeightsODE(dyn_loss=Wn["dyn"], initial_condition=Wn["ic"],
                                                                              observations=Wn["obs"]), params=p1)
        else:
            kw = {}
            if has("boundary"):
                kw.update(omega_boundary_fun=(lambda dx: sp.fb[n]) if kind == "statio" else (lambda t, dx: sp.fb[n]),
                          omega_boundary_condition="dirichlet",
                          **({} if sp.bdim[n] is None else {"omega_boundary_dim": jnp.s_[sp.bdim[n][0]:sp.bdim[n][1]]}))
            if has("norm"):
                kw.update(norm_samples=jnp.asarray(sp.norm_samples_n[n]), norm_int_length=sp.V_n[n])
            if kind == "statio":
                plain = jinns.loss.LossPDEStatio(u=u, dynamic_loss=dl, loss_weights=jinns.loss.LossWeightsPDEStatio(
                    dyn_loss=Wn["dyn"], boundary_loss=Wn["boundary"], norm_loss=Wn["norm"], observations=Wn["obs"]),
                    params=p1, **kw)
            else:
                if has("ic"):
                    c0 = jnp.asarray(sp.u0[n])
                    kw.update(initial_condition_fun=lambda x: c0 + 0.0 * jnp.sum(x))
                plain = jinns.loss.LossPDENonStatio(u=u, dynamic_loss=dl, loss_weights=jinns.loss.LossWeightsPDENonStatio(
                    dyn_loss=Wn["dyn"], boundary_loss=Wn["boundary"], norm_loss=Wn["norm"], observations=Wn["obs"],
                    initial_condition=Wn["ic"]), params=p1, **kw)
        if sp.obs_slice[n] is not None:
            plain = eqx_tree_at_obs_slice(plain, sp.obs_slice[n])
        b1 = sp.batch()
        if sp.any("obs"):
            b1 = jinns.data.append_obs_batch(b1, {"pinn_in": jnp.asarray(sp.obs_in[n]), "val": jnp.asarray(sp.obs_val[n]),
                                                  "eq_params": {}})
        tp, termsp = guard.call(plain.evaluate, p1, b1)
        for t in termsp:
            if t in terms and (t == "dyn_loss" or W.get({"initial_condition": "ic", "boundary_loss": "boundary",
                                                         "norm_loss": "norm", "observations": "obs"}[t]) is not None):
                rec.count("one_by_one_terms_compared")
                if not close(float(terms[t]), float(termsp[t]), 1e-9, 1e-11):
                    rec.violation("%s/one-by-one-differs-from-plain-loss/%s" % (sysname, t),
                                  "1x1 system term %s = %r, plain loss gives %r" % (t, float(terms[t]), float(termsp[t])))
