"""C01 - differential operators return the mathematical operator's value.

Observe: return values of the real operators (jinns.loss._laplacian_rev/_fwd, _div_rev/_fwd,
_vectorial_laplacian, advection through NavierStokes2DStatio.evaluate and, when importable,
the private _u_dot_nabla_times_u_*), called on analytic fields wrapped in the real
PINN / SPINN classes.  Oracle: hand-written closed-form gradient / Hessian (numpy).
"""
import itertools

import numpy as np

from .. import fields, guard
from ..core import close

PROPERTY = "C01"
LEVEL = "exploration"
RULE = ("cases = operator x mode(rev/fwd) x spatial dim 1..4 x with/without time x #outputs x "
        "family (random trig+quadratic+Gaussian fields; exhaustive monomial basis of degree<=3) ; "
        "a (field, point[, component]) evaluation is non-trivial when the closed-form operator "
        "value exceeds 1e-6 in magnitude; distinct = distinct (config, field, point) keys")
ASSUMPTIONS = [
    "closed-form derivatives of the analytic fields are right (self-tested against central finite differences in numpy)",
    "float64 (jax_enable_x64) with rtol 1e-8 / atol 1e-9",
    "advection exists only for d=2 (other d raise NotImplementedError -> counted unsupported)",
]
TIMEOUT = {"quick": 1200, "thorough": 3600}
MIN_COUNTERS = {"quick": {"op_values_compared": 500}, "thorough": {"op_values_compared": 5000}}


def selftest():
    return fields.fd_selftest()


def exhaustive(tier):
    return False


OPS_REV = ["lap", "div", "veclap", "adv", "adv_ns"]
OPS_FWD = ["lap", "div", "veclap", "adv", "adv_ns"]


def _nouts(op, d):
    if op == "lap":
        return [1]
    if op == "div":
        return [d]
    if op == "veclap":
        return sorted({1, d, d + 1})
    return [2] if d == 2 else [d]


def gen_cases(tier, seed):
    cases = []
    nf = 8 if tier == "quick" else 150
    for mode in ("rev", "fwd"):
        for op in OPS_REV:
            for d in (1, 2, 3, 4):
                for with_t in (0, 1):
                    if op == "adv_ns" and (with_t or d != 2):
                        continue
                    if mode == "fwd" and d + with_t > 4:
                        continue  # 5-D tensor grids: cost without new behaviour
                    for n_out in _nouts(op, d):
                        for fam in ("rand", "mono"):
                            if op in ("adv", "adv_ns") and fam == "mono" and d != 2:
                                continue
                            nfields = nf if fam == "rand" else 0
                            cost = (3.0 if mode == "fwd" else 1.0) * (1 + 0.3 * d)
                            cases.append(dict(kind="op", mode=mode, op=op, d=d, with_t=with_t,
                                              n_out=n_out, fam=fam, nfields=nfields,
                                              seed=seed, cost=cost, tier=tier))
    return cases


# ------------------------------------------------------------------ expected values (numpy)
def expected(op, f, z, with_t):
    sx = list(range(with_t, f.D))
    if op == "lap":
        H = f.hess(z)
        return np.array(sum(H[0, i, i] for i in sx))
    if op == "div":
        G = f.grad(z)
        return np.array(sum(G[k, i] for k, i in enumerate(sx)))
    if op == "veclap":
        H = f.hess(z)
        return np.array([sum(H[c, i, i] for i in sx) for c in range(f.n_out)])
    if op in ("adv", "adv_ns"):
        u = f.val(z)
        G = f.grad(z)
        return np.array([sum(u[k] * G[j, i] for k, i in enumerate(sx)) for j in range(2)])
    raise KeyError(op)


def _fields_for(case):
    D = case["d"] + case["with_t"]
    n_out = case["n_out"]
    out = []
    if case["fam"] == "rand":
        for k in range(case["nfields"]):
            s = 1000 * case["seed"] + k
            if case["mode"] == "rev":
                out.append(("rand%d" % k, fields.TrigField(s, D, n_out)))
            else:
                out.append(("rand%d" % k, fields.SepField(s, D, 1 + k % 3, n_out)))
    else:
        monos = fields.multi_indices(D, 3)
        if case["tier"] == "quick" and len(monos) > 12:
            rng = np.random.default_rng(case["seed"] + D)
            pick = sorted(rng.choice(len(monos), 12, replace=False).tolist())
        else:
            pick = range(len(monos))
        for i in pick:
            comp = i % n_out
            if case["mode"] == "rev":
                fill = np.zeros((n_out, len(monos)))
                if n_out > 1:
                    rng = np.random.default_rng(5)
                    fill[:, : min(len(monos), D + 1)] = rng.uniform(0.5, 1.5, (n_out, min(len(monos), D + 1)))
                f = fields.PolyField.onehot(D, n_out, comp, i, fill=fill)
            else:
                f = fields.SepField.monomial(D, n_out, comp, monos[i])
            out.append(("mono%s" % (monos[i],), f))
    return out


def run_case(case, rec):
    import jax
    import jax.numpy as jnp
    import jinns
    from jinns.parameters import Params, ParamsDict
    import jinns.loss._operators as ops

    mode, op, d, with_t, n_out = case["mode"], case["op"], case["d"], case["with_t"], case["n_out"]
    D = d + with_t
    eq_type = "nonstatio_PDE" if with_t else "statio_PDE"
    flist = _fields_for(case)
    f0 = flist[0][1]
    # one case in three carries its field in a subclass of the wrapper class (as the library's HYPERPINN is a
    # subclass of PINN): the operators must treat it as its base class
    sub = (case["seed"] + d + with_t + n_out + len(op) + (case["fam"] == "mono")) % 3 == 1
    if sub:
        rec.count("fields_in_a_wrapper_subclass")
    if mode == "rev":
        u = fields.make_pinn(f0.module(), eq_type, n_out, subclass=sub)
        B = None
    else:
        u = fields.make_spinn(f0.spinn_module(), eq_type, D, f0.r, f0.m, subclass=sub)
        # per-axis batch sizes below, equal to and above the number of coordinates
        hsh = case["seed"] + 7 * d + 3 * with_t + n_out + len(op)
        B = [1, 2][hsh % 2] if D >= 3 else [1, 2, 3][hsh % 3]
        if case["fam"] == "mono":
            B = 2 if D >= 3 else 3
    # constant pressure network for the Navier-Stokes route
    pconst = fields.PolyField(d, 1)
    pconst.C[0, 0] = 0.7
    if mode == "rev":
        p_net = fields.make_pinn(pconst.module(), "statio_PDE", 1)
        p_leaves = pconst.leaves()
    else:
        psep = fields.SepField.monomial(d, 1, 0, (0,) * d)
        p_net = fields.make_spinn(psep.spinn_module(), "statio_PDE", d, 1, 1)
        p_leaves = psep_leaves = None

    def getop(name):
        fn = getattr(jinns.loss, name, None) or getattr(ops, name, None)
        return fn

    def build(u):
        def call(nn, eq, t, x):
            params = Params(nn_params=nn, eq_params=eq)
            tt = t if with_t else None
            if op == "lap":
                return getop("_laplacian_%s" % mode)(tt, x, u, params)
            if op == "div":
                return getop("_div_%s" % mode)(tt, x, u, params)
            if op == "veclap":
                # the component count is an integer however it is spelled (Python int, numpy integer)
                hv = case["seed"] + d + 2 * with_t + n_out + (mode == "fwd") + (case["fam"] == "mono")
                nv = (n_out, np.int64(n_out), np.int32(n_out))[hv % 3]
                if n_out == d and hv % 4 == 3:
                    nv = None
                return getop("_vectorial_laplacian")(tt, x, u, params, u_vec_ndim=nv)
            if op == "adv":
                fn = getop("_u_dot_nabla_times_u_%s" % mode)
                if fn is None:
                    raise guard.Unsupported("private advection operator not importable")
                return fn(tt, x, u, params)
            if op == "adv_ns":
                ns = jinns.loss.NavierStokes2DStatio(u_key="vel", p_key="pre")
                pd = ParamsDict(nn_params={"vel": nn, "pre": eq["__p"]},
                                eq_params={"rho": eq["rho"], "nu": eq["nu"]})
                return ns.evaluate(x, {"vel": u, "pre": p_net}, pd)
            raise KeyError(op)

        return call

    jitted = {}
    rng = np.random.default_rng([case["seed"], d, with_t, n_out, 3])
    n_pts = 3 if case["fam"] == "mono" else 5
    lo, hi = (0.2, 1.5) if case["fam"] == "mono" else (-1.0, 2.0)
    for fname, f in flist:
        if mode == "rev":
            nn = f.leaves()
            uu = u
            key = "rev"
        else:
            import equinox as eqx
            nn = eqx.partition(f.spinn_module(), eqx.is_inexact_array)[0]
            key = "fwd%d" % f.r
            uu = fields.make_spinn(f.spinn_module(), eq_type, D, f.r, f.m, subclass=sub)
        if key not in jitted:
            jitted[key] = jax.jit(build(uu))
        call = jitted[key]
        if op == "adv_ns":
            if mode == "rev":
                pl = pconst.leaves()
            else:
                import equinox as eqx
                pl = eqx.partition(psep.spinn_module(), eqx.is_inexact_array)[0]
            eqs = [{"rho": jnp.asarray(1.3), "nu": jnp.asarray(0.0), "__p": pl},
                   {"rho": jnp.asarray(0.4), "nu": jnp.asarray(0.0), "__p": pl}]
        else:
            eqs = [{"junk": jnp.asarray(1.0), "vec": jnp.ones(3)},
                   {"junk": jnp.asarray(-37.5), "vec": jnp.arange(3.0) * 11.0}]
        # the advection operator is documented for 2-D only; everywhere else a refusal is a failure
        gcall = guard.call if (op in ("adv", "adv_ns") and d != 2) else guard.call_supported
        for ip in range(n_pts):
            if mode == "rev":
                z = rng.uniform(lo, hi, D)
                t = jnp.asarray(z[:1]) if with_t else jnp.zeros((1,))
                x = jnp.asarray(z[with_t:])
                try:
                    got = np.asarray(gcall(call, nn, eqs[0], t, x))
                    got2 = np.asarray(gcall(call, nn, eqs[1], t, x))
                except guard.Unsupported as uerr:
                    rec.unsupp("%s d=%d: %s" % (op, d, uerr.reason))
                    return
                exp = expected(op, f, z, with_t)
                pairs = [(got, exp, z)]
            else:
                cols = rng.uniform(lo, hi, (B, D))
                t = jnp.asarray(cols[:, :1]) if with_t else jnp.zeros((B, 1))
                x = jnp.asarray(cols[:, with_t:])
                try:
                    got = np.asarray(gcall(call, nn, eqs[0], t, x))
                    got2 = np.asarray(gcall(call, nn, eqs[1], t, x))
                except guard.Unsupported as uerr:
                    rec.unsupp("%s d=%d: %s" % (op, d, uerr.reason))
                    return
                grid_exp = np.zeros((B,) * D + np.shape(expected(op, f, cols[0], with_t)))
                for idx in itertools.product(range(B), repeat=D):
                    z = np.array([cols[idx[k], k] for k in range(D)])
                    grid_exp[idx] = expected(op, f, z, with_t)
                if op == "veclap":
                    grid_exp = np.moveaxis(grid_exp, -1, 0)  # jinns returns (n, B, .., B)
                exp = grid_exp
                pairs = [(got, exp, cols)]
            rec.count("calls_%s_%s_d%d_t%d" % (op, mode, d, with_t), 2)
            for g, e, zz in pairs:
                g = np.asarray(g)
                if g.shape != e.shape:
                    if g.size == e.size:
                        g = g.reshape(e.shape)
                    else:
                        rec.violation("%s/%s/shape" % (op, mode),
                                      "operator %s_%s returned shape %s, expected %s" % (op, mode, g.shape, e.shape),
                                      point=zz, field=fname)
                        continue
                rec.count("op_values_compared", int(e.size))
                if np.max(np.abs(e)) > 1e-6:
                    rec.nontrivial((op, mode, d, with_t, n_out, fname, ip))
                else:
                    rec.count("trivial_expected_zero")
                if not close(g, e, 1e-8, 1e-9):
                    rec.violation("%s/%s/value" % (op, mode),
                                  "%s_%s d=%d t=%d n_out=%d field=%s: got %s expected %s"
                                  % (op, mode, d, with_t, n_out, fname, np.round(g.reshape(-1)[:4], 8),
                                     np.round(e.reshape(-1)[:4], 8)),
                                  point=zz, got=g, expected=e, field=fname)
                rec.set_sample(op=op, mode=mode, d=d, with_t=with_t, n_out=n_out, field=fname,
                               point=zz, got=g, expected=e)
            if not np.array_equal(got, got2):
                if op == "adv_ns":
                    if not close(got, got2, 1e-9, 1e-11):
                        rec.violation("%s/%s/depends-on-rho-with-constant-p" % (op, mode),
                                      "advection through NS changes with rho although grad p = 0")
                else:
                    rec.violation("%s/%s/unrelated-params" % (op, mode),
                                  "result changes when an unrelated eq_params entry changes",
                                  got=got, got2=got2)
            rec.count("unrelated_param_pairs")
