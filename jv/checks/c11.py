"""C11 - forward-mode (separable) and reverse-mode (pointwise) computations agree.

Observe: for the same function (analytic separable field wrapped once in the real SPINN
and once in a pointwise PINN built from the same leaves; plus random create_SPINN
networks with a pointwise twin) the *_fwd vs *_rev operators, DynamicLoss.evaluate of the
built-in equations, and the boundary / initial-condition / normalisation terms of the PDE
losses on a SPINN batch vs the PINN loss on the explicit grid of that batch.
Closed forms are used for attribution (which side is wrong).
"""
import itertools

import numpy as np

from .. import fields, guard, nets
from ..core import close

PROPERTY = "C11"
LEVEL = "exploration"
RULE = ("cases = (operator | built-in equation | loss term) x spatial dim 1..3 x embedding r 1..4 x outputs m "
        "1..2 x batch 2..4 (all coordinates different so an axis transposition is visible) x parameters "
        "(scalar and, for Fisher r, grid-shaped); non-trivial = reverse-mode value > 1e-6 in magnitude at "
        "some grid point; distinct = distinct configuration tuples")
ASSUMPTIONS = [
    "grid index (i1..id) corresponds to the point (col_1[i1], .., col_d[id]) with time first",
    "observation term not covered (jinns raises RuntimeError for separable networks: unsupported)",
    "loss terms: the pointwise loss is evaluated on the explicit grid of the separable batch (per facet for the border)",
]
TIMEOUT = {"quick": 1800, "thorough": 5400}
MIN_COUNTERS = {"quick": {"grid_values_compared": 700, "loss_terms_compared": 40, "dyn_grids_compared": 30},
                "thorough": {"grid_values_compared": 9000, "loss_terms_compared": 600, "dyn_grids_compared": 500}}
DYNS = ["burgers", "fisher", "fisher_rgrid", "ou", "mass", "ns"]
TERMS = ["norm_statio", "norm_nonstatio", "ic", "dirichlet_statio", "dirichlet_nonstatio", "neumann_statio",
         "neumann_nonstatio"]


def gen_cases(tier, seed):
    rng = np.random.default_rng(seed + 1111)
    q = tier == "quick"
    cases = []
    n = 4 if q else 30
    for rep in range(n):
        for op in ("lap", "div", "veclap", "adv"):
            for d in (1, 2, 3):
                for with_t in (0, 1):
                    if op == "adv" and d != 2:
                        continue
                    if d + with_t > 3:
                        continue
                    cases.append(dict(kind="op", op=op, d=d, with_t=with_t, r=int(rng.integers(1, 5)),
                                      B=int(rng.integers(1, 5)) if d + with_t < 3 else int(rng.integers(1, 3)), real=bool(rep % 2),
                                      seed=seed * 1000 + rep, cost=3.0))
        for dyn in DYNS:
            for k in range(2 if q else 4):
                cases.append(dict(kind="dyn", dyn=dyn, d=(int(rng.integers(1, 3)) if dyn.startswith("fisher") else 0),
                                  r=int(rng.integers(1, 5)), B=int(rng.integers(2, 4)),
                                  seed=seed * 1000 + rep * 10 + k, cost=4.0))
        for term in TERMS:
            for k in range(4 if q else 6):
                d = 1 + (k % 2)
                cases.append(dict(kind="term", term=term, d=d, r=int(rng.integers(1, 4)),
                                  m=int(rng.integers(1, 3)), B=int(rng.integers(2, 4)),
                                  seed=seed * 1000 + rep * 10 + k, cost=3.0))
    return cases


def grid_points(cols):
    B, D = cols.shape
    for idx in itertools.product(range(B), repeat=D):
        yield idx, np.array([cols[idx[k], k] for k in range(D)])


def run_case(case, rec):
    import jax
    import jax.numpy as jnp
    import jinns
    from jinns.parameters import Params, ParamsDict
    import jinns.loss._operators as ops

    J = lambda v: jnp.asarray(v, dtype=float)
    rng = np.random.default_rng([case["seed"], 11, case.get("d", 0)])

    def cmp_grid(name, fwd, rev, closed, sig, key):
        """fwd, rev: arrays on the grid (same shape); closed: numpy closed form or None"""
        fwd, rev = np.asarray(fwd, float), np.asarray(rev, float)
        rec.count("grid_values_compared", rev.size)
        if np.max(np.abs(rev)) > 1e-6:
            rec.nontrivial(key)
        rec.set_sample(what=name, fwd_head=fwd.reshape(-1)[:4], rev_head=rev.reshape(-1)[:4])
        if fwd.shape != rev.shape:
            if fwd.size == rev.size:
                fwd = fwd.reshape(rev.shape)
            else:
                rec.violation(sig + "/shape", "%s: forward shape %s vs reverse grid %s" % (name, fwd.shape, rev.shape))
                return
        if not close(fwd, rev, 1e-8, 1e-9):
            side = ""
            if closed is not None:
                okf, okr = close(fwd, closed, 1e-8, 1e-9), close(rev, closed, 1e-8, 1e-9)
                side = "/forward-side-wrong" if (okr and not okf) else ("/reverse-side-wrong" if (okf and not okr) else "")
            # transposition?
            tr = ""
            if fwd.ndim >= 2 and fwd.shape[0] == fwd.shape[1] and close(np.swapaxes(fwd, 0, 1), rev, 1e-8, 1e-9):
                tr = "/grid-axes-transposed"
            rec.violation(sig + tr + side, "%s: forward-mode grid differs from reverse-mode values: %s vs %s"
                          % (name, fwd.reshape(-1)[:4], rev.reshape(-1)[:4]), fwd=fwd, rev=rev)

    # ============================================================================== operators
    if case["kind"] == "op":
        op, d, with_t, r, B = case["op"], case["d"], case["with_t"], case["r"], case["B"]
        D = d + with_t
        eqt = "nonstatio_PDE" if with_t else "statio_PDE"
        m = {"lap": 1, "div": d, "veclap": d, "adv": 2}[op]
        params_eq = {"nu": J(1.0)}
        if case["real"]:
            import equinox as eqx

            lst = ((eqx.nn.Linear, 1, 5), (jax.nn.tanh,), (eqx.nn.Linear, 5, r * m))
            us = jinns.utils.create_SPINN(jax.random.PRNGKey(case["seed"]), D, r, lst, eqt, m)
            nn_s = us.init_params()

            class Twin(eqx.Module):
                inner: object
                r: int = eqx.field(static=True)
                m: int = eqx.field(static=True)
                with_t: bool = eqx.field(static=True)

                def __call__(self, z):
                    o = self.inner(z[:1], z[1:]) if self.with_t else self.inner(None, z)
                    return jnp.sum(jnp.prod(o, axis=0).reshape(self.m, self.r), axis=1)

            tw = Twin(inner=eqx.combine(nn_s, us.static), r=r, m=m, with_t=bool(with_t))
            up = fields.make_pinn(tw, eqt, m)
            nn_p = eqx.partition(tw, eqx.is_inexact_array)[0]
            closed_f = None
        else:
            sf = fields.SepField(case["seed"], D, r, m)
            sn = nets.SNet(sf, eqt)
            us, up, nn_s, nn_p = sn.spinn(), sn.twin_pinn(), sn.nn_params(), sn.twin_params()
            closed_f = sf
        cols = rng.uniform(-1, 2, (B, D))
        t_b = J(cols[:, :1]) if with_t else None
        x_b = J(cols[:, with_t:])
        ps, pp = Params(nn_params=nn_s, eq_params=params_eq), Params(nn_params=nn_p, eq_params=params_eq)

        def rev_at(z):
            t = J(z[:1]) if with_t else None
            x = J(z[with_t:])
            if op == "lap":
                return ops._laplacian_rev(t, x, up, pp)
            if op == "div":
                return ops._div_rev(t, x, up, pp)
            if op == "veclap":
                return ops._vectorial_laplacian(t, x, up, pp, u_vec_ndim=m)
            return ops._u_dot_nabla_times_u_rev(t, x, up, pp)

        if op == "lap":
            fwd = guard.call(ops._laplacian_fwd, t_b, x_b, us, ps)
        elif op == "div":
            fwd = guard.call(ops._div_fwd, t_b, x_b, us, ps)
        elif op == "veclap":
            fwd = np.moveaxis(np.asarray(guard.call(ops._vectorial_laplacian, t_b, x_b, us, ps, u_vec_ndim=m)), 0, -1)
        else:
            fwd = guard.call(ops._u_dot_nabla_times_u_fwd, t_b, x_b, us, ps)
        rev_j = jax.jit(lambda z: rev_at(z))
        shp = (B,) * D + (() if op in ("lap", "div") else (m,))
        rev = np.zeros(shp)
        closed = np.zeros(shp) if closed_f is not None else None
        from .c01 import expected as c01_expected
        for idx, z in grid_points(cols):
            rev[idx] = np.asarray(guard.call(rev_j, J(z)))
            if closed is not None:
                closed[idx] = c01_expected({"adv": "adv"}.get(op, op), closed_f, z, with_t)
        cmp_grid("%s d=%d t=%d" % (op, d, with_t), fwd, rev, closed, "op/%s" % op,
                 ("op", op, d, with_t, r, B, case["real"], case["seed"]))
        return

    # ============================================================================== built-in equations
    if case["kind"] == "dyn":
        dyn, r, B = case["dyn"], case["r"], case["B"]
        Tmax = float(rng.choice([1.0, 0.37, 10.0]))
        rec.count("dyn_grids_compared")
        if dyn in ("burgers", "fisher", "fisher_rgrid", "ou"):
            d = {"burgers": 1, "ou": 2}.get(dyn, case["d"])
            D = 1 + d
            sf = fields.SepField(case["seed"], D, r, 1)
            sn = nets.SNet(sf, "nonstatio_PDE")
            us, up = sn.spinn(), sn.twin_pinn()
            cols = rng.uniform(0.1, 1.2, (B, D))
            if dyn == "burgers":
                dl = jinns.loss.BurgerEquation(Tmax=Tmax)
                eqp = {"nu": J(0.3)}
                eq_at = lambda idx: eqp
            elif dyn.startswith("fisher"):
                dl = jinns.loss.FisherKPP(Tmax=Tmax)
                if dyn == "fisher_rgrid":
                    rg = rng.uniform(0.5, 2.0, (B,) * D)
                    eqp = {"D": J(0.4), "r": J(rg), "g": J(1.7)}
                    eq_at = lambda idx: {"D": J(0.4), "r": J(rg[idx]), "g": J(1.7)}
                else:
                    eqp = {"D": J(0.4), "r": J(0.9), "g": J(1.7)}
                    eq_at = lambda idx: eqp
            else:
                dl = jinns.loss.OU_FPENonStatioLoss2D(Tmax=Tmax)
                eqp = {"alpha": J([0.7, 1.3]), "mu": J([0.2, -0.1]), "sigma": J([0.8, 1.1])}
                eq_at = lambda idx: eqp
            fwd = guard.call(dl.evaluate, J(cols[:, :1]), J(cols[:, 1:]), us, Params(nn_params=sn.nn_params(), eq_params=eqp))
            rev_j = jax.jit(lambda z, e: dl.evaluate(z[:1], z[1:], up, Params(nn_params=sn.twin_params(), eq_params=e)))
            rev = np.zeros((B,) * D + (1,))
            for idx, z in grid_points(cols):
                rev[idx] = np.asarray(guard.call(rev_j, J(z), eq_at(idx))).reshape(1)
            cmp_grid("%s Tmax=%g" % (dyn, Tmax), fwd, rev, None, "dyn/%s" % dyn, ("dyn", dyn, d, r, B, Tmax, case["seed"]))
            return
        # mass conservation / Navier-Stokes (stationary 2-D, two networks)
        sfu = fields.SepField(case["seed"], 2, r, 2)
        sfp = fields.SepField(case["seed"] + 1, 2, max(1, r - 1), 1)
        snu, snp = nets.SNet(sfu, "statio_PDE"), nets.SNet(sfp, "statio_PDE")
        cols = rng.uniform(-0.5, 1.5, (B, 2))
        eqp = {"rho": J(1.3), "nu": J(0.6)}
        if dyn == "mass":
            dl = jinns.loss.MassConservation2DStatio(nn_key="vel")
        else:
            dl = jinns.loss.NavierStokes2DStatio(u_key="vel", p_key="pre")
        pds = ParamsDict(nn_params={"vel": snu.nn_params(), "pre": snp.nn_params()}, eq_params=eqp)
        pdp = ParamsDict(nn_params={"vel": snu.twin_params(), "pre": snp.twin_params()}, eq_params=eqp)
        fwd = guard.call(dl.evaluate, J(cols), {"vel": snu.spinn(), "pre": snp.spinn()}, pds)
        ud = {"vel": snu.twin_pinn(), "pre": snp.twin_pinn()}
        rev_j = jax.jit(lambda z: dl.evaluate(z, ud, pdp))
        k = 1 if dyn == "mass" else 2
        rev = np.zeros((B, B, k))
        for idx, z in grid_points(cols):
            rev[idx] = np.asarray(guard.call(rev_j, J(z))).reshape(k)
        cmp_grid(dyn, fwd, rev, None, "dyn/%s" % dyn, ("dyn", dyn, r, B, case["seed"]))
        return

    # ============================================================================== loss terms
    term, d, r, m, B = case["term"], case["d"], case["r"], case["m"], case["B"]
    nonst = term in ("norm_nonstatio", "ic", "dirichlet_nonstatio", "neumann_nonstatio")
    D = d + (1 if nonst else 0)
    eqt = "nonstatio_PDE" if nonst else "statio_PDE"
    if term.startswith("norm"):
        m = 1
    sf = fields.SepField(case["seed"], D, r, m)
    sn = nets.SNet(sf, eqt)
    us, up = sn.spinn(), sn.twin_pinn()
    ps = Params(nn_params=sn.nn_params(), eq_params={"nu": J(1.0)})
    pp = Params(nn_params=sn.twin_params(), eq_params={"nu": J(1.0)})
    Loss = jinns.loss.LossPDENonStatio if nonst else jinns.loss.LossPDEStatio
    LW = jinns.loss.LossWeightsPDENonStatio if nonst else jinns.loss.LossWeightsPDEStatio
    w = float(np.round(rng.uniform(0.5, 2.0), 3))
    rec.count("loss_terms_compared")
    sig = "term/%s/dim%d" % (term, d)

    def both(kw_s, kw_p, batch_s, batch_p, tname, closed=None, extra_key=()):
        ls = guard.call(Loss, u=us, dynamic_loss=None, params=ps, **kw_s)
        lp = guard.call(Loss, u=up, dynamic_loss=None, params=pp, **kw_p)
        try:
            vs = float(guard.call(ls.evaluate, ps, batch_s)[1][tname])
        except guard.Unsupported as un:
            if tname != "boundary_loss":
                raise
            # boundary conditions are documented for 1-D and 2-D, with and without time: a refusal of the
            # separable path where the pointwise path returns a value is a disagreement
            vp = float(guard.call(lp.evaluate, pp, batch_p)[1][tname])
            rec.violation(sig + "/forward-rejected", "separable %s term refused (%s) where the pointwise term is %r"
                          % (term, un.reason[:80], vp), m=m, d=d, B=B, extra=list(extra_key))
            return
        except guard.Crash as c:
            rec.violation(sig + "/forward-crash/m%s" % ("1" if m == 1 else ">1"),
                          "separable %s term crashed: %s" % (term, c), m=m, d=d, B=B)
            return
        if case.get("judge") == "closed":
            # used by C04: the separable term against the closed form alone
            rec.count("separable_terms_vs_closed_form")
            if abs(closed) > 1e-6:
                rec.nontrivial(("spinn-term", term, d, r, m, B, case["seed"]) + tuple(extra_key))
            rec.set_sample(term=term, d=d, r=r, m=m, B=B, separable=vs, closed_form=closed)
            if not close(vs, closed, 1e-8, 1e-10):
                rec.violation(sig + "/separable-vs-closed-form" + ("/m>1" if m > 1 else ""),
                              "%s on a separable network: term %r, closed form %r %s" % (term, vs, closed, list(extra_key)),
                              separable=vs, closed=closed)
            return
        vp = float(guard.call(lp.evaluate, pp, batch_p)[1][tname])
        rec.count("grid_values_compared")
        if abs(vp) > 1e-6:
            rec.nontrivial(("term", term, d, r, m, B, case["seed"]) + tuple(extra_key))
        rec.set_sample(term=term, d=d, r=r, m=m, B=B, separable=vs, pointwise_on_grid=vp, closed_form=closed)
        if not close(vs, vp, 1e-8, 1e-10):
            side = ""
            if closed is not None:
                okf, okr = close(vs, closed, 1e-8, 1e-10), close(vp, closed, 1e-8, 1e-10)
                side = "/forward-side-wrong" if (okr and not okf) else ("/reverse-side-wrong" if (okf and not okr) else "")
            rec.violation(sig + "/value" + side + ("/m>1" if m > 1 else ""),
                          "%s: separable term %r, pointwise term on the explicit grid %r (closed form %r) %s"
                          % (term, vs, vp, closed, list(extra_key)), separable=vs, pointwise=vp, closed=closed)

    if term.startswith("norm"):
        # the separable code needs the number of normalisation samples to be a multiple of the number of time
        # stamps of the batch: equal, twice and three times as many, in turn
        nt_, V = B, 2.5
        S = B * (1 + case["seed"] % 3) if nonst else B
        rec.count("norm_samples_per_time_stamp_%d" % (S // nt_))
        samples = rng.uniform(-1, 2, (S, d))
        grid_s = np.array([z for _, z in grid_points(samples)])
        kw_s = dict(norm_samples=J(samples), norm_int_length=V, loss_weights=LW(norm_loss=w))
        kw_p = dict(norm_samples=J(grid_s), norm_int_length=V, loss_weights=LW(norm_loss=w))
        if not nonst:
            bs = jinns.data.PDEStatioBatch(inside_batch=J(rng.uniform(-1, 2, (B, d))), border_batch=None)
            closed = w * (V * np.mean([sf.val(z)[0] for z in grid_s]) - 1) ** 2
            both(kw_s, kw_p, bs, bs, "norm_loss", closed)
        else:
            tx = rng.uniform(0, 1, (nt_, 1 + d))
            bs = jinns.data.PDENonStatioBatch(times_x_inside_batch=J(tx), times_x_border_batch=None)
            closed = w * float(np.mean([(V * np.mean([sf.val(np.concatenate([[t], z]))[0] for z in grid_s]) - 1) ** 2
                                        for t in tx[:, 0]]))
            both(kw_s, kw_p, bs, bs, "norm_loss", closed)
        return
    if term == "ic":
        al, be = rng.uniform(-1, 1, m), rng.uniform(-1, 1, (m, d))
        A, Bm = J(al), J(be)
        u0 = lambda x: A + x @ Bm.T
        xs = rng.uniform(-1, 2, (B, d))
        ts = rng.uniform(0, 1, (B, 1))
        grid_x = np.array([z for _, z in grid_points(xs)])
        kw = dict(initial_condition_fun=u0, loss_weights=LW(initial_condition=w))
        bs = jinns.data.PDENonStatioBatch(times_x_inside_batch=J(np.concatenate([ts, xs], 1)), times_x_border_batch=None)
        bp = jinns.data.PDENonStatioBatch(times_x_inside_batch=J(np.concatenate([np.zeros((len(grid_x), 1)), grid_x], 1)),
                                          times_x_border_batch=None)
        closed = w * float(np.mean([np.sum((al + be @ x - sf.val(np.concatenate([[0.0], x]))) ** 2) for x in grid_x]))
        both(kw, kw, bs, bp, "initial_condition", closed)
        return
    # ---- boundary (one facet at a time through the per-facet dict)
    cond = "dirichlet" if term.startswith("dirichlet") else "von neumann"
    nf = 2 * d
    names = ["xmin", "xmax", "ymin", "ymax"][:nf]
    mins, maxs = [-1.0, 0.5][:d], [2.0, 3.0][:d]
    comp = int(rng.integers(m))
    sel = [comp, comp + 1] if cond != "dirichlet" else sorted([int(rng.integers(m)), m])
    if sel[0] == sel[1]:
        sel = [0, m]
    k = sel[1] - sel[0]
    nb = 1 if d == 1 else B
    cols_sp = []
    for f in range(nf):
        p = np.stack([rng.uniform(mins[a], maxs[a], nb) for a in range(d)], 1)
        p[:, f // 2] = [mins, maxs][f % 2][f // 2]
        cols_sp.append(p)
    sp = np.stack(cols_sp, -1)  # (nb, d, nf)
    for f in range(nf):
        al, be = rng.uniform(0.5, 1.5, k), rng.uniform(-1, 1, (k, D))
        A, Bm = J(al), J(be)
        if nonst:
            # written with broadcasting arithmetic (as users do), not by concatenating t and x
            fj = lambda t, x: A + t * Bm[:, 0] + x @ Bm[:, 1:].T
        else:
            fj = lambda x: A + x @ Bm.T
        fnp = lambda z: al + be @ z
        if cond != "dirichlet" and case["seed"] % 3 == 0:
            # the usual way of writing a homogeneous / constant flux: a Python scalar
            c0 = float(al[0])
            fj = (lambda t, x: c0) if nonst else (lambda x: c0)
            fnp = lambda z: np.array([c0])
            rec.count("neumann_scalar_valued_f")
        spec = dict(omega_boundary_fun={n: fj for n in names},
                    omega_boundary_condition={n: (cond if i == f else None) for i, n in enumerate(names)},
                    omega_boundary_dim={n: jnp.s_[sel[0]:sel[1]] for n in names},
                    loss_weights=LW(boundary_loss=w))
        if not nonst:
            bs = jinns.data.PDEStatioBatch(inside_batch=J(np.zeros((2, d))), border_batch=J(sp))
            expl = np.stack([np.array([z for _, z in grid_points(sp[:, :, ff])]) for ff in range(nf)], -1)
            bp = jinns.data.PDEStatioBatch(inside_batch=J(np.zeros((2, d))), border_batch=J(expl))
            pts = expl[:, :, f]
        else:
            nt = nb if d == 2 else (1 if case["seed"] % 2 else B)
            ts = rng.uniform(0, 1, (nt, 1))
            spt = sp if d == 2 else np.repeat(sp, nt, axis=0)  # 1-D: the border point once per time, as get_batch does
            tsp = np.concatenate([np.repeat(ts[:, :, None], nf, axis=2), spt], axis=1)  # (nt, 1+d, nf)
            bs = jinns.data.PDENonStatioBatch(times_x_inside_batch=J(np.zeros((2, 1 + d))), times_x_border_batch=J(tsp))
            expl = np.stack([np.array([z for _, z in grid_points(tsp[:, :, ff])]) for ff in range(nf)], -1)
            bp = jinns.data.PDENonStatioBatch(times_x_inside_batch=J(np.zeros((2, 1 + d))), times_x_border_batch=J(expl))
            pts = expl[:, :, f]
        nvec = np.zeros(d)
        nvec[f // 2] = [-1.0, 1.0][f % 2]
        vals = []
        for z in pts:
            if cond == "dirichlet":
                vals.append(w * float(np.sum((sf.val(z)[sel[0]:sel[1]] - fnp(z)) ** 2)))
            else:
                g = sf.grad(z)[sel[0], (1 if nonst else 0):]
                vals.append(w * float((np.dot(g, nvec) - fnp(z)[0]) ** 2))
        closed = float(np.mean(vals))
        both(spec, spec, bs, bp, "boundary_loss", closed, extra_key=("facet", names[f], "comp", tuple(sel)))
