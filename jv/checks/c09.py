"""C09 - mini-batching permutes the point set and serves each point once per epoch.

Observe: the sequence (generator_k, batch_k) produced by repeated real get_batch() calls
(compiled and eager) for times, interior points, each border facet, observation rows and
each parameter key.  Oracle: models.EpochChecker (observational, no internal index read).
"""
import numpy as np

from .. import gens, guard
from ..models import EpochChecker

PROPERTY = "C09"
LEVEL = "exploration"
RULE = ("histories of get_batch() calls (4 epochs of the slowest stream + 1 batch) for every "
        "generator kind; small scope n in 1..N, b in 1..n enumerated exhaustively (N=8 quick, 12 "
        "thorough) plus random (n<=200, b); every stream of every history is a non-trivial case "
        "when it completed >= 2 epochs; distinct = distinct (kind, stream, n, b, key, mode)")
ASSUMPTIONS = [
    "stored rows are pairwise distinct (checked; otherwise the stream is skipped and counted), so a served value identifies its row",
    "batches are fixed-size: an epoch of a stream with n points and batch size b has ceil(n/b) batches",
    "reshuffle test: >= 2 identical consecutive epoch orders with n >= 6 in one history (false-alarm probability < 1e-4 per history, deterministic per seed)",
]
TIMEOUT = {"quick": 1500, "thorough": 5400}
MIN_COUNTERS = {"quick": {"epochs_completed": 1000, "streams_divisible": 50, "streams_nondivisible": 50},
                "thorough": {"epochs_completed": 10000, "streams_divisible": 300, "streams_nondivisible": 300}}


def exhaustive(tier):
    return True  # the small (n, b) scope is enumerated completely (plus random larger pairs)


def gen_cases(tier, seed):
    q = tier == "quick"
    N = 8 if q else 12
    keys = [seed * 10 + k for k in range(2 if q else 5)]
    pairs = [(n, b) for n in range(1, N + 1) for b in range(1, n + 1)]
    rng = np.random.default_rng(seed + 909)
    extra = []
    for _ in range(8 if q else 60):
        n = int(rng.integers(N + 1, 201))
        b = int(rng.integers(1, n + 1))
        if rng.integers(2):
            # force divisibility half of the time
            divs = [k for k in range(1, n + 1) if n % k == 0]
            b = int(rng.choice(divs))
        extra.append((n, b))
    cases = []
    allp = pairs + extra
    for i, (n, b) in enumerate(allp):
        # partner sizes for the other streams of the same generator: walk the pair list
        n2, b2 = allp[(i * 7 + 3) % len(pairs)]
        n3, b3 = allp[(i * 11 + 5) % len(pairs)]
        eager = (i % 9 == 0) and n <= 8
        cost = 1.0 + n / 40.0
        if i % 6 == 1 and n >= 2:
            # generators configured for residual-adaptive refinement (no refinement step happens here): n usable points
            # followed by inactive pre-allocated slots; mini-batching serves the usable ones once per epoch
            # (batch sizes dividing n only: with b not dividing n the clamped last batch of an epoch reaches into the
            # inactive slots, a behaviour no property statement speaks about - see DESIGN section 7)
            bdiv = max(k_ for k_ in range(1, n + 1) if n % k_ == 0 and k_ <= max(b, 1))
            for kind in ("ode_rar", "statio1_rar"):
                cases.append(dict(kind=kind, n=n, b=bdiv, n2=n2, b2=b2, n3=n3, b3=b3, keys=keys, eager=False, cost=cost, x64=True))
        for kind in ("ode", "statio2", "nonstatio1", "nonstatio2", "obs", "param"):
            cases.append(dict(kind=kind, n=n, b=b, n2=n2, b2=b2, n3=n3, b3=b3, keys=keys,
                              eager=eager, cost=cost * (2 if "non" in kind else 1), x64=True))
            if i % 4 == 2:
                # JAX's default 32-bit mode (what users run): int32 cursors, float32 points
                cases.append(dict(kind=kind, n=n, b=b, n2=n2, b2=b2, n3=n3, b3=b3, keys=keys[:1],
                                  eager=False, cost=cost * (2 if "non" in kind else 1), x64=False))
    return cases


def _keys(arr):
    a = np.asarray(arr)
    if a.ndim == 1:
        a = a[:, None]
    return [gens.rowkey(r) for r in a.reshape(a.shape[0], -1)]


def _uniq(keys):
    return list(dict.fromkeys(keys))


class Stream:
    def __init__(self, rec, name, store, b, tag, usable=None):
        ks = _keys(store)
        self.ok = len(set(ks)) == len(ks)
        if usable is not None and self.ok:
            self.chk = EpochChecker(ks[:usable], b, name, full_store=ks)
        else:
            self.chk = EpochChecker(ks, b, name) if self.ok else None
        self.rec, self.name, self.tag = rec, name, tag
        if not self.ok:
            rec.count("streams_skipped_nondistinct_store")

    def feed(self, batch_rows, store_after, uniq=False):
        if self.chk is None:
            return
        bk = _keys(batch_rows)
        if uniq:
            bk = _uniq(bk)
        self.chk.feed(bk, _keys(store_after))

    def finish(self, sigp):
        if self.chk is None:
            return
        c = self.chk
        self.rec.count("epochs_completed", len(c.epochs))
        self.rec.count("batches_fed", c.nb)
        self.rec.count("streams_divisible" if c.n % c.b == 0 else "streams_nondivisible")
        if len(c.epochs) >= 2:
            self.rec.nontrivial(self.tag)
        for sig, what in c.finish():
            self.rec.violation("%s/%s" % (sigp, sig), what, stream=self.name, n=c.n, b=c.b)


def run_case(case, rec):
    import jax
    import jax.numpy as jnp
    import jinns

    kind, n, b = case["kind"], case["n"], case["b"]
    for key in case["keys"]:
        mode = "eager" if case["eager"] else "jit"
        if kind in ("ode_rar", "statio1_rar"):
            extra = 3 + n % 4
            if kind == "ode_rar":
                d = dict(kind="ode", key=key, nt=n + extra, bt=b, tmin=-1.0, tmax=2.0, nt_start=n,
                         rar=dict(start_iter=10 ** 6, update_every=3, sample_size_times=4, selected_sample_size_times=1))
            else:
                d = dict(kind="statio", key=key, n=n + extra, b=b, dim=1, min_pts=[-1.0], max_pts=[1.0], nb=None, bb=None,
                         n_start=n, rar=dict(start_iter=10 ** 6, update_every=3, sample_size_omega=4, selected_sample_size_omega=1))
            try:
                g = guard.call(gens.make_generator, d)
            except guard.Unsupported as u:
                rec.unsupp("%s: %s" % (kind, u.reason))
                return
            step = jax.jit(lambda gg: gg.get_batch())
            store = (lambda gg: gg.times) if kind == "ode_rar" else (lambda gg: gg.omega)
            s_ = Stream(rec, "usable points of a refinement-enabled generator", store(g), b, (kind, "usable", n, b, key, mode),
                        usable=n)
            rec.count("streams_with_refinement_enabled")
            for k in range(4 * (-(-n // b)) + 1):
                g, batch = guard.call(step, g)
                rec.count("get_batch_calls_%s" % mode)
                s_.feed(batch.temporal_batch if kind == "ode_rar" else batch.inside_batch, store(g))
            s_.finish("epoch/%s" % kind)
            continue
        if kind in ("ode", "statio2", "nonstatio1", "nonstatio2"):
            if kind == "ode":
                d = dict(kind="ode", key=key, nt=n, bt=b, tmin=-1.0, tmax=2.0)
            else:
                dim = 2 if kind.endswith("2") else 1
                per, bb = case["n3"], case["b3"]
                d = dict(kind="statio" if kind == "statio2" else "nonstatio", key=key, n=n, b=b,
                         dim=dim, min_pts=[-1.0, 0.5][:dim], max_pts=[1.0, 2.5][:dim],
                         nb=4 * per if dim == 2 else 2, bb=bb if dim == 2 else 1,
                         nt=case["n2"], bt=case["b2"], tmin=0.0, tmax=3.0, cartesian=True)
            if (key + n) % 3 == 1 and n >= 2:
                # a start size left in the call although refinement is off (documented as ignored then): the epoch
                # still serves every stored point
                if kind == "ode":
                    d["nt_start"] = max(1, n // 2)
                else:
                    d["n_start"] = max(1, n // 2)
                    if kind != "statio2":
                        d["nt_start"] = max(1, case["n2"] // 2)
                rec.count("generators_with_a_start_size_but_no_refinement")
            try:
                g = guard.call(gens.make_generator, d)
            except guard.Unsupported as u:
                rec.unsupp("%s: %s" % (kind, u.reason))
                return
            step = (lambda gg: gg.get_batch()) if case["eager"] else jax.jit(lambda gg: gg.get_batch())
            streams = {}
            if not case.get("x64", True):
                mode = mode + "-x32"
                rec.count("streams_in_32bit_mode")
            tag = lambda s, nn, bb_: (kind, s, nn, bb_, key, mode)
            if kind == "ode":
                streams["times"] = Stream(rec, "times", g.times, b, tag("times", n, b))
            else:
                streams["omega"] = Stream(rec, "omega", g.omega, b, tag("omega", n, b))
                if kind != "statio2":
                    streams["times"] = Stream(rec, "times", g.times, case["b2"], tag("times", case["n2"], case["b2"]))
                if d["dim"] == 2:
                    for f in range(4):
                        streams["facet%d" % f] = Stream(rec, "border facet %d" % f,
                                                        np.asarray(g.omega_border)[:, :, f], d["bb"],
                                                        tag("facet%d" % f, per, d["bb"]))
            gmax = max(s.chk.g for s in streams.values() if s.chk is not None) if any(
                s.chk for s in streams.values()) else 1
            for k in range(4 * gmax + 1):
                g, batch = guard.call(step, g)
                rec.count("get_batch_calls_%s" % mode)
                if kind == "ode":
                    streams["times"].feed(batch.temporal_batch, g.times)
                elif kind == "statio2":
                    streams["omega"].feed(batch.inside_batch, g.omega)
                    bbt = np.asarray(batch.border_batch)
                    for f in range(4):
                        streams["facet%d" % f].feed(bbt[:, :, f], np.asarray(g.omega_border)[:, :, f])
                else:
                    tx = np.asarray(batch.times_x_inside_batch)
                    streams["times"].feed(tx[:, 0], g.times, uniq=True)
                    streams["omega"].feed(tx[:, 1:], g.omega, uniq=True)
                    if d["dim"] == 2:
                        tb = np.asarray(batch.times_x_border_batch)
                        for f in range(4):
                            streams["facet%d" % f].feed(tb[:, 1:, f], np.asarray(g.omega_border)[:, :, f],
                                                        uniq=True)
                if k == 0:
                    rec.set_sample(kind=kind, n=n, b=b, key=key, mode=mode,
                                   first_batch=jax.tree_util.tree_leaves(batch)[0])
            for name, s in streams.items():
                s.finish("epoch/%s" % ("border" if name.startswith("facet") else name))
        elif kind == "obs":
            jax.clear_caches()  # see C20: static array metadata of two loaders must not meet in one jit cache
            # table with a row tag in every column
            rows = np.arange(n, dtype=float)
            pin = np.stack([rows, 10.0 * rows + 0.5], axis=1)
            val = (100.0 + rows)[:, None]
            eqp = {"theta": (1000.0 + rows)[:, None]}
            try:
                g = guard.call(jinns.data.DataGeneratorObservations, jax.random.PRNGKey(key), b,
                               jnp.asarray(pin), jnp.asarray(val), {k: jnp.asarray(v) for k, v in eqp.items()})
            except guard.Unsupported as u:
                rec.unsupp("obs: %s" % u.reason)
                return
            step = (lambda gg: gg.get_batch()) if case["eager"] else jax.jit(lambda gg: gg.get_batch())
            if not case.get("x64", True):
                mode = mode + "-x32"
                rec.count("streams_in_32bit_mode")
            s = Stream(rec, "observation rows", g.observed_pinn_in, b, (kind, "rows", n, b, key, mode))
            for k in range(4 * s.chk.g + 1):
                g, ob = guard.call(step, g)
                rec.count("get_batch_calls_%s" % mode)
                s.feed(ob["pinn_in"], g.observed_pinn_in)
                if k == 0:
                    rec.set_sample(kind=kind, n=n, b=b, key=key, mode=mode, first_batch=ob["pinn_in"])
            s.finish("epoch/obs")
            if key % 2 == 0:
                # the multi-network loader: one observation set per network, the per-network dictionaries written
                # with unrelated key orders.  A served row (inputs | values | observed parameter) of network N is a row
                # of N's own stored set, and an epoch serves each of them once
                jax.clear_caches()
                tabs = {}
                for j, nm in enumerate(("u", "v")):
                    r_ = np.arange(n, dtype=float) + 10000.0 * (j + 1)
                    tabs[nm] = (np.stack([r_, 10.0 * r_ + 0.5], axis=1), (100.0 + r_)[:, None], (1000.0 + r_)[:, None])
                J = jnp.asarray
                order = [("u", "v"), ("v", "u")]
                o1, o2, o3 = order[key % 4 // 2], order[1 - key % 4 // 2], order[(key // 4) % 2]
                try:
                    gm = guard.call(jinns.data.DataGeneratorObservationsMultiPINNs, b,
                                    {k_: J(tabs[k_][0]) for k_ in o1}, {k_: J(tabs[k_][1]) for k_ in o2},
                                    observed_eq_params_dict={k_: {"theta": J(tabs[k_][2])} for k_ in o3},
                                    key=jax.random.PRNGKey(key))
                except guard.Unsupported as u:
                    rec.unsupp("multi: %s" % u.reason)
                    return
                # (the user's tables as the process's floating precision represents them)
                full = {nm: np.concatenate([np.asarray(J(a_)) for a_ in tabs[nm]], axis=1) for nm in tabs}

                def held(gg, nm):
                    sg = gg.data_gen_obs[nm]
                    return np.concatenate([np.asarray(sg.observed_pinn_in), np.asarray(sg.observed_values),
                                           np.asarray(sg.observed_eq_params["theta"])], axis=1)

                ms = {nm: Stream(rec, "observation rows of network %s (multi-network loader)" % nm, full[nm], b,
                                 (kind, "multi", nm, n, b, key, mode)) for nm in tabs}
                rec.count("multi_network_streams", len(ms))
                for k in range(3 * (-(-n // b)) + 1):
                    gm, ob = guard.call(step, gm)
                    for nm in tabs:
                        e_ = ob[nm]
                        ms[nm].feed(np.concatenate([np.asarray(e_["pinn_in"]), np.asarray(e_["val"]),
                                                    np.asarray(e_["eq_params"]["theta"])], axis=1), held(gm, nm))
                for nm in tabs:
                    ms[nm].finish("epoch/obs-multi")
        elif kind == "param":
            jax.clear_caches()
            pr = {"alpha": (0.0, 1.0)}
            ud = {"beta": jnp.asarray(np.arange(n, dtype=float) * 3.0 + 7.0)}
            try:
                g = guard.call(jinns.data.DataGeneratorParameter, jax.random.PRNGKey(key), n, b,
                               param_ranges=pr, user_data=ud)
            except guard.Unsupported as u:
                rec.unsupp("param: %s" % u.reason)
                return
            step = (lambda gg: gg.get_batch()) if case["eager"] else jax.jit(lambda gg: gg.get_batch())
            ss = {k: Stream(rec, "parameter %s" % k, g.param_n_samples[k], b, (kind, k, n, b, key, mode))
                  for k in ("alpha", "beta")}
            gmax = -(-n // b)
            for k in range(4 * gmax + 1):
                g, pb = guard.call(step, g)
                rec.count("get_batch_calls_%s" % mode)
                for kk in ss:
                    ss[kk].feed(pb[kk], g.param_n_samples[kk])
            for kk in ss:
                ss[kk].finish("epoch/param")
