"""C15 - observation and parameter loaders keep rows aligned with the user's tables.

Observe: dicts returned by the real get_batch() of DataGeneratorObservations,
DataGeneratorParameter and DataGeneratorObservationsMultiPINNs over >= 3 epochs.
Oracle: every table cell carries a row tag, so alignment is read off the values.
"""
import itertools

import numpy as np

from .. import guard

PROPERTY = "C15"
LEVEL = "exploration"
RULE = ("cases = loader kind (observations / parameters / multi-network) x table sizes 1..30 x "
        "input and value column counts (1-D arrays and 2-D) x 0..3 observed parameters x batch "
        "sizes x range/table combinations x table shapes (n,) and (n,1) x keys; >= 3 epochs per "
        "history, compiled and eager; non-trivial = a batch with >= 2 rows or a table with >= 2 rows;"
        " distinct = distinct (kind, configuration, key)")
ASSUMPTIONS = [
    "tables are built with a row tag in every column (cell = tag(row) + 1000*column), so a returned row identifies its source row",
    "'empty entry' of a network without observations means None, {} or an absent key",
    "documented table shapes (n,) and (n,1) must both be accepted: an explicit rejection of one of them is a violation, not 'unsupported'",
]
TIMEOUT = {"quick": 900, "thorough": 3000}
MIN_COUNTERS = {"quick": {"obs_rows_checked": 1200, "param_samples_checked": 900, "multi_batches_checked": 50,
                          "obs_loaders_with_sharding_device": 5},
                "thorough": {"obs_rows_checked": 12000, "param_samples_checked": 8000, "multi_batches_checked": 400,
                             "obs_loaders_with_sharding_device": 40}}


def gen_cases(tier, seed):
    q = tier == "quick"
    rng = np.random.default_rng(seed + 1515)
    cases = []
    for k in range(40 if q else 300):
        n = int(rng.integers(1, 31))
        b = int(rng.integers(1, n + 1))
        if k % 7 == 3:
            b = n  # the whole table in one batch
        cases.append(dict(kind="obs", n=n, b=b, kin=int(rng.integers(0, 4)), kout=int(rng.integers(0, 4)),
                          nparams=int(rng.integers(0, 4)), pshape=int(rng.integers(2)),
                          key=seed * 100 + k, eager=(k % 5 == 0), cost=1.0, x64=bool(k % 3),
                          sharding=bool(k % 4 == 1)))
    combos = list(itertools.product(("range", "table1", "table2", "both1", "both2"), repeat=2))
    for k, (ca, cb) in enumerate(combos * (1 if q else 8)):
        n = int(rng.integers(1, 25))
        b = int(rng.integers(1, n + 1))
        cases.append(dict(kind="param", n=n, b=b, spec={"ka": ca, "kb": cb}, method=["uniform", "grid"][k % 3 == 0],
                          key=seed * 100 + k, eager=(k % 4 == 0), cost=1.0, x64=bool(k % 3 != 1), inttab=bool(k % 4 == 3)))
    for k in range(12 if q else 80):
        nn = 1 + k % 3
        n = int(rng.integers(2, 16))
        b = int(rng.integers(1, n + 1))
        if k % 5 == 2:
            b = n
        present = [bool(rng.integers(3)) for _ in range(nn)]
        if not any(present):
            present[0] = True
        cases.append(dict(kind="multi", n=n, b=b, present=present, nparams=int(rng.integers(0, 3)),
                          key=seed * 100 + k, cost=1.5))
    return cases


def tagged(n, ncols, base, oned=False):
    r = np.arange(n, dtype=float)
    if oned:
        return r + base
    return np.stack([r + base + 1000.0 * c for c in range(ncols)], axis=1)


def run_case(case, rec):
    import jax
    import jax.numpy as jnp
    import jinns

    jax.clear_caches()  # see C20 (static array metadata of two loaders in one jit cache)
    kind = case["kind"]
    if kind == "obs":
        n, b = case["n"], case["b"]
        pin = tagged(n, max(case["kin"], 1), 0.0, oned=case["kin"] == 0)
        val = tagged(n, max(case["kout"], 1), 0.25, oned=case["kout"] == 0)
        eqp = {}
        for j in range(case["nparams"]):
            a = np.arange(n, dtype=float) + 0.5 + 10000.0 * (j + 1)
            eqp["p%d" % j] = a if case["pshape"] == 0 else a[:, None]
        kw = {}
        if case.get("sharding"):
            # the documented sharding_device option, with the only (CPU) device: must not change what is served
            kw["sharding_device"] = jax.sharding.SingleDeviceSharding(jax.devices()[0])
            rec.count("obs_loaders_with_sharding_device")
        g = guard.call_supported(jinns.data.DataGeneratorObservations, jax.random.PRNGKey(case["key"]), b,
                       jnp.asarray(pin), jnp.asarray(val), {k: jnp.asarray(v) for k, v in eqp.items()}, **kw)
        step = (lambda gg: gg.get_batch()) if case["eager"] else jax.jit(lambda gg: gg.get_batch())
        g_epoch = -(-n // b)
        pin2 = pin[:, None] if pin.ndim == 1 else pin
        val2 = val[:, None] if val.ndim == 1 else val
        for k in range(3 * g_epoch + 1):
            g, ob = guard.call(step, g)
            bi, bv = np.asarray(ob["pinn_in"]), np.asarray(ob["val"])
            if bi.shape != (b, pin2.shape[1]) or bv.shape != (b, val2.shape[1]):
                rec.violation("obs/batch-shape", "batch shapes %s/%s, expected %s/%s"
                              % (bi.shape, bv.shape, (b, pin2.shape[1]), (b, val2.shape[1])))
                continue
            if set(ob["eq_params"].keys()) != set(eqp.keys()):
                rec.violation("obs/eq-param-keys", "observed parameter keys %s, expected %s"
                              % (sorted(ob["eq_params"].keys()), sorted(eqp.keys())))
                continue
            for i in range(b):
                rec.count("obs_rows_checked")
                if not np.all(np.isfinite(bi[i])):
                    rec.violation("obs/input-not-a-table-row", "batch input row %s is not a row of the table (non-finite), "
                                  "batch %d of n=%d b=%d" % (bi[i], k, n, b))
                    continue
                r = int(round(bi[i, 0]))  # the row tag
                if not (0 <= r < n) or not np.array_equal(bi[i], pin2[r]):
                    rec.violation("obs/input-not-a-table-row", "batch input row %s is not a row of the table" % bi[i])
                    continue
                if not np.array_equal(bv[i], val2[r]):
                    rec.violation("obs/value-misaligned",
                                  "input comes from row %d but value %s comes from elsewhere (row %d holds %s)"
                                  % (r, bv[i], r, val2[r]), batch_in=bi, batch_val=bv)
                for kk, tab in eqp.items():
                    got = np.asarray(ob["eq_params"][kk])
                    if got.shape != (b, 1):
                        rec.violation("obs/eq-param-shape", "observed parameter batch has shape %s, expected %s"
                                      % (got.shape, (b, 1)))
                        break
                    if got[i, 0] != np.asarray(tab).reshape(-1)[r]:
                        rec.violation("obs/eq-param-misaligned",
                                      "input comes from row %d but observed parameter %s=%r comes from elsewhere"
                                      % (r, kk, float(got[i, 0])))
            if k == 0:
                rec.set_sample(kind=kind, n=n, b=b, inputs=bi, values=bv,
                               eq_params={kk: np.asarray(v) for kk, v in ob["eq_params"].items()})
        if n >= 2:
            rec.nontrivial(("obs", n, b, case["kin"], case["kout"], case["nparams"], case["pshape"], case["key"]))
        return
    if kind == "param":
        n, b = case["n"], case["b"]
        ranges, tables, expect = {}, {}, {}
        for j, (kk, spec) in enumerate(sorted(case["spec"].items())):
            lo, hi = (2.0 + 3 * j, 3.0 + 3 * j)
            tab = np.arange(n, dtype=float) * 0.5 + 100.0 * (j + 1)  # disjoint from every range
            if case.get("inttab"):
                # an integer table (identifiers, counts): its entries are served as they are - in the default 32-bit mode
                # these values have no exact float32 representation
                tab = 16777217 + 2 * np.arange(n, dtype=np.int64) + 1000 * j
                rec.count("integer_user_tables")
            if spec in ("range", "both1", "both2"):
                ranges[kk] = (lo, hi)
            if spec in ("table1", "both1"):
                tables[kk] = tab
            if spec in ("table2", "both2"):
                tables[kk] = tab[:, None]
            expect[kk] = ("table", tab) if kk in tables else ("range", (lo, hi))
        pkey = jax.random.PRNGKey(case["key"])
        if case["key"] % 3 == 1:
            # the documented alternative: one random key per parameter name
            names_ = sorted(set(ranges) | set(tables))
            pkey = dict(zip(names_, jax.random.split(pkey, len(names_))))
            rec.count("param_loaders_with_key_dict")
        try:
            g = guard.call(jinns.data.DataGeneratorParameter, pkey, n, b,
                           param_ranges=ranges, method=case["method"],
                           user_data={k: jnp.asarray(v) for k, v in tables.items()})
        except guard.Unsupported as u:
            shapes = {k: tuple(np.shape(v)) for k, v in tables.items()}
            two = [k for k, s in shapes.items() if len(s) == 2]
            rec.violation("param/user-table/%s/rejected" % ("(n,1)" if two else "(n,)"),
                          "documented user table shapes %s rejected: %s" % (shapes, u.reason), spec=case["spec"])
            return
        step = (lambda gg: gg.get_batch()) if case["eager"] else jax.jit(lambda gg: gg.get_batch())
        for k in range(3 * (-(-n // b)) + 1):
            g, pb = guard.call(step, g)
            if set(pb.keys()) != set(expect.keys()):
                rec.violation("param/keys", "batch keys %s, expected %s" % (sorted(pb), sorted(expect)))
                break
            for kk, (src, info) in expect.items():
                got = np.asarray(pb[kk])
                if got.shape != (b, 1):
                    rec.violation("param/batch-shape", "parameter batch %s has shape %s, expected %s" % (kk, got.shape, (b, 1)))
                    continue
                rec.count("param_samples_checked", b)
                if src == "table":
                    if not all(v in set(info.tolist()) for v in got[:, 0].tolist()):
                        rec.violation("param/table-not-used",
                                      "key %s has a user table (priority) but the batch %s does not come from it"
                                      % (kk, got[:3, 0]), spec=case["spec"])
                else:
                    lo, hi = info
                    if np.any(got < lo) or np.any(got > hi):
                        rec.violation("param/out-of-range", "key %s sample %s outside its own range [%g,%g]"
                                      % (kk, got[:3, 0], lo, hi), spec=case["spec"])
            if k == 0:
                rec.set_sample(kind=kind, n=n, b=b, spec=case["spec"], batch={kk: np.asarray(v) for kk, v in pb.items()})
        rec.nontrivial(("param", n, b, tuple(sorted(case["spec"].items())), case["method"], case["key"]))
        return
    if kind == "multi":
        n, b = case["n"], case["b"]
        names = ["u%d" % i for i in range(len(case["present"]))]
        pins, vals, eqps = {}, {}, {}
        for j, (nm, pres) in enumerate(zip(names, case["present"])):
            if pres:
                pins[nm] = tagged(n, 2, 100000.0 * (j + 1))
                vals[nm] = tagged(n, 1, 100000.0 * (j + 1) + 0.25)
                eqps[nm] = {"p%d" % q_: (np.arange(n, dtype=float) + 100000.0 * (j + 1) + 0.5 + 10000 * (q_ + 1))[:, None]
                            for q_ in range(case["nparams"])}
            else:
                pins[nm], vals[nm], eqps[nm] = None, None, {}
        # the three per-network dictionaries are written with unrelated key insertion orders
        def reorder(d, salt):
            ks = list(d)
            perm = np.random.default_rng([case["key"], salt]).permutation(len(ks))
            return {ks[i]: d[ks[i]] for i in perm}

        pins, vals, eqps = reorder(pins, 1), reorder(vals, 2), reorder(eqps, 3)
        J = lambda d: {k: (None if v is None else jnp.asarray(v)) for k, v in d.items()}
        g = guard.call_supported(jinns.data.DataGeneratorObservationsMultiPINNs, b, J(pins), J(vals),
                       observed_eq_params_dict={k: {kk: jnp.asarray(vv) for kk, vv in v.items()} for k, v in eqps.items()},
                       key=jax.random.PRNGKey(case["key"]))
        for k in range(3 * (-(-n // b)) + 1):
            g, ob = guard.call(lambda gg: gg.get_batch(), g)
            rec.count("multi_batches_checked")
            for j, (nm, pres) in enumerate(zip(names, case["present"])):
                entry = ob.get(nm) if isinstance(ob, dict) else None
                if not pres:
                    if not (entry is None or entry == {}):
                        rec.violation("multi/non-empty-entry-for-network-without-observations",
                                      "network %s has no observations but its entry is %r" % (nm, entry))
                    continue
                if not isinstance(entry, dict) or "pinn_in" not in entry:
                    rec.violation("multi/missing-entry", "network %s has observations but no batch entry" % nm)
                    continue
                bi, bv = np.asarray(entry["pinn_in"]), np.asarray(entry["val"])
                for i in range(bi.shape[0]):
                    rec.count("obs_rows_checked")
                    if not np.all(np.isfinite(bi[i])):
                        rec.violation("multi/input-from-other-network-or-row",
                                      "network %s: input row %s is not a row of its own table (non-finite)" % (nm, bi[i]))
                        continue
                    r = int(round(bi[i, 0] - 100000.0 * (j + 1)))
                    if not (0 <= r < n) or not np.array_equal(bi[i], pins[nm][r]):
                        rec.violation("multi/input-from-other-network-or-row",
                                      "network %s: input row %s is not a row of its own table" % (nm, bi[i]))
                        continue
                    if not np.array_equal(bv[i], vals[nm][r]):
                        rec.violation("multi/value-misaligned", "network %s: value not from row %d" % (nm, r))
                    for kk, tab in eqps[nm].items():
                        if np.asarray(entry["eq_params"][kk])[i, 0] != tab[r, 0]:
                            rec.violation("multi/eq-param-misaligned", "network %s: parameter %s not from row %d" % (nm, kk, r))
                if bi.shape[0] != b:
                    rec.violation("multi/batch-size", "network %s batch has %d rows, expected %d" % (nm, bi.shape[0], b))
            if k == 0:
                rec.set_sample(kind=kind, n=n, b=b, present=case["present"],
                               entries={nm: (None if not isinstance(ob.get(nm), dict) or not ob.get(nm) else np.asarray(ob[nm]["pinn_in"])) for nm in names})
        rec.nontrivial(("multi", n, b, tuple(case["present"]), case["nparams"], case["key"]))
