"""C10 - network wrappers honour their calling and output conventions.

Observe: return values of PINN / SPINN / HYPERPINN objects made by the real create_*
functions.  Oracle: independent forward passes written here in numpy (walk of the layer
list, explicit contraction loops, manual split of the hyper-network output).
"""
import itertools

import numpy as np

from .. import guard
from ..core import close

PROPERTY = "C10"
LEVEL = "exploration"
RULE = ("cases = wrapper (PINN, shared-output PINNs, SPINN, HYPERPINN) x equation type x architecture "
        "(depth 1..3, widths 1..8, tanh/sin/softplus) x outputs 1..4 x transforms using eq_params x output "
        "slices x SPINN d 1..3, r 1..4, m 1..3, batch 1..4 x 1..3 hyper-parameters of different shapes; "
        "non-trivial = output differs from 0 and (when transforms exist) from the untransformed network; "
        "distinct = distinct configuration tuples")
ASSUMPTIONS = [
    "independent numpy forward pass: Linear = W x + b, activations tanh / sin / softplus",
    "'restricted to its output slice' refers to the wrapper's output_slice (slice_solution is used by loss terms, C05)",
    "float64, rtol 1e-9",
    "every wrapper is evaluated with parameters different from the ones it was created with",
    "shared-output networks have >= 2 outputs (a one-output network with a shared slice is not generated)",
    "shared output slices are whatever jnp.s_ can express on one axis (contiguous, integers from either end, negative bounds, steps, overlapping), always selecting >= 1 output",
]
TIMEOUT = {"quick": 1200, "thorough": 3600}
MIN_COUNTERS = {"quick": {"pinn_calls_compared": 100, "spinn_grids_compared": 12, "hyper_calls_compared": 20, "hyper_sets_of_equal_row_matrices": 2,
                          "bare_params_calls": 20, "shared_output_sets": 8, "shared_slice_form_negative_int": 4,
                          "shared_slice_form_int": 4, "shared_slice_form_negative_bound": 4},
                "thorough": {"pinn_calls_compared": 2000, "spinn_grids_compared": 200, "hyper_calls_compared": 400, "hyper_sets_of_equal_row_matrices": 20,
                             "bare_params_calls": 400, "shared_output_sets": 150, "shared_slice_form_negative_int": 40,
                             "shared_slice_form_int": 40, "shared_slice_form_negative_bound": 40,
                             "shared_slice_form_step": 10, "shared_output_sets_hyper": 10}}
ACTS = ["tanh", "sin", "softplus"]


def gen_cases(tier, seed):
    rng = np.random.default_rng(seed + 1010)
    q = tier == "quick"
    cases = []
    for k in range(120 if q else 1600):
        kind = ["pinn", "pinn", "shared", "spinn", "hyper"][k % 5]
        eqt = ["ODE", "statio_PDE", "nonstatio_PDE"][int(rng.integers(3))]
        if kind == "spinn":
            eqt = ["statio_PDE", "nonstatio_PDE"][int(rng.integers(2))]
        depth = int(rng.integers(1, 4))
        widths = [int(rng.integers(1, 9)) for _ in range(depth)]
        c = dict(kind=kind, eq_type=eqt, dim_x=0 if eqt == "ODE" else int(rng.integers(1, 4)),
                 widths=widths, acts=[ACTS[int(rng.integers(3))] for _ in range(depth)],
                 n_out=int(rng.integers(1, 5)), transforms=bool(rng.integers(2)),
                 final_act=bool(rng.integers(4) == 0), seed=seed * 100000 + k, cost=1.0)
        if kind == "shared":
            c["n_out"] = max(2, c["n_out"])  # sharing outputs presupposes >= 2 of them
        if kind == "spinn":
            c.update(d=int(rng.integers(1, 4)), r=int(rng.integers(1, 5)), m=int(rng.integers(1, 4)),
                     B=int(rng.integers(1, 5)))
            if eqt == "nonstatio_PDE" and c["d"] == 1:
                c["d"] = 2
        if kind == "hyper":
            c.update(nhyper=int(rng.integers(1, 4)))
            if (k // 5) % 4 == 3:
                c["nhyper"] = 4  # several matrix-valued hyper-parameters with the same number of rows
        cases.append(c)
    return cases


def np_act(name):
    return {"tanh": np.tanh, "sin": np.sin, "softplus": lambda x: np.logaddexp(x, 0.0)}[name]


def forward_np(layers, x):
    """layers: list of ('lin', W, b) / ('act', name)"""
    x = np.asarray(x, dtype=np.float64)
    for l in layers:
        if l[0] == "lin":
            x = l[1] @ x + l[2]
        else:
            x = np_act(l[1])(x)
    return x


def extract_layers(module_layers, act_names):
    import equinox as eqx

    out = []
    it = iter(act_names)
    for l in module_layers:
        if isinstance(l, eqx.nn.Linear):
            out.append(("lin", np.asarray(l.weight, dtype=np.float64), np.asarray(l.bias, dtype=np.float64)))
        else:
            out.append(("act", next(it)))
    return out


def eqx_list_for(n_in, widths, acts, n_out, final_act):
    import equinox as eqx
    import jax
    import jax.numpy as jnp

    A = {"tanh": jax.nn.tanh, "sin": jnp.sin, "softplus": jax.nn.softplus}
    lst, names = [], []
    prev = n_in
    for w, a in zip(widths, acts):
        lst.append((eqx.nn.Linear, prev, w))
        lst.append((A[a],))
        names.append(a)
        prev = w
    lst.append((eqx.nn.Linear, prev, n_out))
    if final_act:
        lst.append((A["tanh"],))
        names.append("tanh")
    return tuple(lst), names


def slice_form(sl):
    if isinstance(sl, int):
        return "negative_int" if sl < 0 else "int"
    if sl.step not in (None, 1):
        return "step"
    if (sl.start or 0) < 0 or (sl.stop or 0) < 0:
        return "negative_bound"
    return "contiguous"


def shared_slices(rng, n_out, seed):
    """The output slices handed to shared_pinn_outputs and their numpy twins (python ints / slices).
    Half of the sets partition the outputs into contiguous slices; the others mix every indexing form a
    user can write with jnp.s_: integers (from either end), negative bounds, steps, overlaps."""
    if seed % 2 == 0:
        cuts = sorted(set(rng.integers(1, n_out, size=min(2, n_out - 1)).tolist()))
        bounds = [0] + cuts + [n_out]
        sl = [slice(bounds[i], bounds[i + 1]) for i in range(len(bounds) - 1)]
    else:
        forms = []
        for _ in range(int(rng.integers(2, 5))):
            f = int(rng.integers(6))
            if f == 0:
                forms.append(int(rng.integers(0, n_out)))
            elif f == 1:
                forms.append(-int(rng.integers(1, n_out + 1)))
            elif f == 2:
                forms.append(slice(-int(rng.integers(1, n_out + 1)), None))
            elif f == 3:
                forms.append(slice(None, -int(rng.integers(1, n_out))))
            elif f == 4:
                forms.append(slice(int(rng.integers(0, 2)), None, 2))
            else:
                a = int(rng.integers(0, n_out))
                forms.append(slice(a, int(rng.integers(a + 1, n_out + 1))))
        # the last output as a bare negative integer is what "the pressure is the last output" looks like
        if seed % 4 == 1:
            forms[-1] = -1
        # ... and the first output as the bare integer 0 (a falsy value)
        if seed % 4 == 3 or seed % 5 == 0:
            forms[0] = 0
        sl = forms
    return tuple(sl), list(sl)


def moved(nn, rng):
    """parameters that are NOT the creation-time ones (a wrapper must use what it is given, not what it holds)"""
    import jax
    import jax.numpy as jnp

    leaves, tdef = jax.tree_util.tree_flatten(nn)
    return jax.tree_util.tree_unflatten(tdef, [jnp.asarray(np.asarray(l) * 0.8 + rng.uniform(-0.3, 0.3, np.shape(l)))
                                               for l in leaves])


def run_case(case, rec):
    import equinox as eqx
    import jax
    import jax.numpy as jnp
    import jinns
    from jinns.parameters import Params

    rng = np.random.default_rng([case["seed"], 10])
    kind, eqt, dx, n_out = case["kind"], case["eq_type"], case["dim_x"], case["n_out"]
    key = jax.random.PRNGKey(case["seed"] % 100003)
    D = {"ODE": 1, "statio_PDE": dx, "nonstatio_PDE": dx + 1}[eqt]
    J = lambda v: jnp.asarray(v, dtype=float)
    a_in = rng.uniform(0.5, 1.5, D)
    b_in = rng.uniform(-0.5, 0.5, D)
    c_out = rng.uniform(-1, 1, n_out)
    eq = {"s": float(rng.uniform(0.5, 2)), "g": float(rng.uniform(0.5, 2)), "unused": 3.0}
    eqj = {k: J(v) for k, v in eq.items()}

    if case["transforms"]:
        ain, bin_, cout = J(a_in), J(b_in), J(c_out)
        in_tr = lambda x, p: x * ain + p.eq_params["s"] * bin_
        out_tr = lambda x, o, p: o * p.eq_params["g"] + cout * x[0]
        in_np = lambda z: z * a_in + eq["s"] * b_in
        out_np = lambda z, o: o * eq["g"] + c_out * z[0]
    else:
        in_tr = out_tr = None
        in_np = lambda z: z
        out_np = lambda z, o: o

    def call_u(u, z, params, scalar_t=False, int_x=False):
        # int_x: the space coordinates are lattice points handed over as an integer array (the time stays a float)
        JX = (lambda v: jnp.asarray(np.asarray(v).astype(np.int32))) if int_x else J
        if eqt == "ODE":
            t = J(z[0]) if scalar_t else J(z[:1])
            return guard.call(u, t, params)
        if eqt == "statio_PDE":
            return guard.call(u, JX(z), params)
        return guard.call(u, J(z[:1]), JX(z[1:]), params)

    # ============================================================================ PINN / shared
    if kind in ("pinn", "shared"):
        lst, names = eqx_list_for(D, case["widths"], case["acts"], n_out, case["final_act"])
        shared = None
        if kind == "shared":
            shared, sl_np = shared_slices(rng, n_out, case["seed"])
        us = guard.call(jinns.utils.create_PINN, key, lst, eqt, dx, input_transform=in_tr,
                        output_transform=out_tr, shared_pinn_outputs=shared)
        ulist = us if isinstance(us, list) else [us]
        if kind == "shared":
            rec.count("shared_output_sets")
            if len(ulist) != len(shared):
                rec.violation("shared/count", "%d networks returned for %d output slices" % (len(ulist), len(shared)))
                return
        nn = moved(ulist[0].init_params(), rng)
        model = eqx.combine(nn, ulist[0].static)
        layers = extract_layers(model.layers, names)
        params = Params(nn_params=nn, eq_params=eqj)
        for ip in range(5):
            z = rng.uniform(-1, 2, D)
            lattice = ip == 4 and eqt != "ODE"
            if lattice:
                z[(1 if eqt == "nonstatio_PDE" else 0):] = rng.integers(-1, 3, dx)
                rec.count("calls_on_integer_lattice_points")
            raw = forward_np(layers, in_np(z))
            raw = np.atleast_1d(raw.squeeze())
            full = np.atleast_1d(out_np(z, raw if n_out > 1 else raw.reshape(())))
            for j, u in enumerate(ulist):
                exp = full if kind == "pinn" else np.atleast_1d(full[sl_np[j]])
                got = np.asarray(call_u(u, z, params, int_x=lattice))
                rec.count("pinn_calls_compared")
                if got.ndim != 1:
                    rec.violation("pinn/no-trailing-component-axis", "output has shape %s (no trailing component axis)"
                                  % (got.shape,), eq_type=eqt, n_out=n_out)
                    continue
                nontriv = exp.size > 0 and np.max(np.abs(exp)) > 1e-9 and (not case["transforms"] or not close(
                    exp, raw[: exp.size] if kind == "pinn" else np.atleast_1d(raw[sl_np[j]]), 1e-6, 1e-9))
                if kind == "shared":
                    rec.count("shared_slice_form_%s" % slice_form(sl_np[j]))
                if nontriv:
                    rec.nontrivial((kind, eqt, dx, tuple(case["widths"]), tuple(case["acts"]), n_out,
                                    case["transforms"], j, ip, case["seed"]))
                rec.set_sample(kind=kind, eq_type=eqt, z=z, got=got, expected=exp, transforms=case["transforms"])
                if got.shape != exp.shape or not close(got, exp, 1e-9, 1e-11):
                    rec.violation("%s/%s" % (kind, "transforms" if case["transforms"] else "forward"),
                                  "u(%s) = %s, independent forward pass gives %s (eq_type %s, slice %s)"
                                  % (np.round(z, 4), got, exp, eqt, sl_np[j] if kind == "shared" else None),
                                  got=got, expected=exp)
                if eqt == "ODE":
                    got0 = np.asarray(call_u(u, z, params, scalar_t=True))
                    rec.count("scalar_time_calls")
                    if got0.shape != got.shape or not close(got0, got, 1e-12, 1e-14):
                        rec.violation("pinn/scalar-vs-length-one-time", "u(t scalar) = %s but u(t (1,)) = %s" % (got0, got))
                if not case["transforms"]:
                    gotb = np.asarray(call_u(u, z, nn, int_x=lattice))
                    rec.count("bare_params_calls")
                    if gotb.shape != got.shape or not close(gotb, got, 1e-12, 1e-14):
                        rec.violation("pinn/bare-params", "bare nn_params give %s, Params object gives %s" % (gotb, got))
        if kind == "shared":
            # slices of ONE common network: same parameters object / values for every returned network
            l0 = jax.tree_util.tree_leaves(ulist[0].params)
            for u in ulist[1:]:
                lk = jax.tree_util.tree_leaves(u.params)
                if len(lk) != len(l0) or not all(np.array_equal(np.asarray(a), np.asarray(b)) for a, b in zip(l0, lk)):
                    rec.violation("shared/not-one-common-network", "shared-output networks hold different parameters")
        return
    # ============================================================================ SPINN
    if kind == "spinn":
        d, r, m, B = case["d"], case["r"], case["m"], case["B"]
        if eqt == "nonstatio_PDE":
            d = max(d, 2)
        lst, names = eqx_list_for(1, case["widths"], case["acts"], r * m, case["final_act"])
        u = guard.call(jinns.utils.create_SPINN, key, d, r, lst, eqt, m)
        nn = moved(u.init_params(), rng)
        model = eqx.combine(nn, u.static)
        subnets = [extract_layers(model.separated_mlp[k], names) for k in range(d)]
        cols = rng.uniform(-1, 2, (B, d))
        if eqt == "statio_PDE":
            got = np.asarray(guard.call(u, J(cols), Params(nn_params=nn, eq_params=eqj)))
            gotb = np.asarray(guard.call(u, J(cols), nn))
        else:
            got = np.asarray(guard.call(u, J(cols[:, :1]), J(cols[:, 1:]), Params(nn_params=nn, eq_params=eqj)))
            gotb = np.asarray(guard.call(u, J(cols[:, :1]), J(cols[:, 1:]), nn))
        rec.count("bare_params_calls")
        exp = np.zeros((B,) * d + (m,))
        fac = [[forward_np(subnets[k], np.array([cols[i, k]])) for i in range(B)] for k in range(d)]
        for idx in itertools.product(range(B), repeat=d):
            for mm in range(m):
                s = 0.0
                for rr in range(r):
                    p = 1.0
                    for k in range(d):
                        p *= fac[k][idx[k]][mm * r + rr]
                    s += p
                exp[idx + (mm,)] = s
        rec.count("spinn_grids_compared")
        if np.max(np.abs(exp)) > 1e-12:
            rec.nontrivial((kind, eqt, d, r, m, B, tuple(case["widths"]), case["seed"]))
        rec.set_sample(kind=kind, d=d, r=r, m=m, B=B, got_shape=list(got.shape), got_head=got.reshape(-1)[:4],
                       expected_head=exp.reshape(-1)[:4])
        if got.shape != exp.shape:
            rec.violation("spinn/shape", "separable output shape %s, expected grid %s with one slot per output"
                          % (got.shape, exp.shape), d=d, r=r, m=m, B=B)
        elif not close(got, exp, 1e-9, 1e-11):
            rec.violation("spinn/grid-value", "separable output differs from sum_r prod_d f_d(x_d) (d=%d r=%d m=%d B=%d): "
                          "%s vs %s" % (d, r, m, B, got.reshape(-1)[:4], exp.reshape(-1)[:4]), got=got, expected=exp)
        if gotb.shape != got.shape or not close(gotb, got, 1e-12, 1e-14):
            rec.violation("spinn/bare-params", "bare nn_params give a different result than the Params object")
        return
    # ============================================================================ HYPERPINN
    if kind == "hyper":
        shapes = [(), (3,), (2, 2)][: case["nhyper"]]
        hnames = ["nu", "vec", "mat"][: case["nhyper"]]
        if case["nhyper"] == 4:
            # matrices only, equal row counts: "flattened, then concatenated" differs from any concatenation of the
            # matrices themselves followed by one flatten (rows would interleave) while every shape stays legal
            shapes = [(2, 2), (2, 3)] + ([(2, 1)] if case["seed"] % 2 else [])
            hnames = ["mat", "mat2", "mat3"][: len(shapes)]
            rec.count("hyper_sets_of_equal_row_matrices")
        order = list(rng.permutation(len(hnames)))
        hyperparams = [hnames[i] for i in order]
        hvals = {n: rng.uniform(-1, 1, s) for n, s in zip(hnames, shapes)}
        hsize = int(sum(int(np.prod(hvals[n].shape)) for n in hyperparams))
        lst, names = eqx_list_for(D, case["widths"], case["acts"], n_out, case["final_act"])
        hw = int(rng.integers(2, 6))
        lst_h = ((eqx.nn.Linear, 1, hw), (jax.nn.tanh,), (eqx.nn.Linear, hw, 1))
        hshared = hsl = None
        if n_out >= 2 and case["seed"] % 3 == 0:
            hshared, hsl = shared_slices(rng, n_out, case["seed"] // 3)
        us = guard.call(jinns.utils.create_HYPERPINN, key, lst, eqt, hyperparams, hsize, dx,
                        input_transform=in_tr, output_transform=out_tr, eqx_list_hyper=lst_h,
                        shared_pinn_outputs=hshared)
        ulist = us if isinstance(us, list) else [us]
        if hshared is not None:
            rec.count("shared_output_sets_hyper")
            if len(ulist) != len(hshared):
                rec.violation("shared/count", "%d hyper networks returned for %d output slices" % (len(ulist), len(hshared)))
                return
        u = ulist[0]
        nn = moved(u.init_params(), rng)
        hyper_model = eqx.combine(nn, u.static_hyper)
        hlayers = extract_layers(hyper_model.layers, ["tanh"])
        eq_all = dict(eqj)
        eq_all.update({n: J(v) for n, v in hvals.items()})
        params = Params(nn_params=nn, eq_params=eq_all)
        hin = np.concatenate([np.asarray(hvals[n], float).reshape(-1) for n in hyperparams])
        hout = forward_np(hlayers, hin)
        leaves = jax.tree_util.tree_leaves(u.params)
        sizes = [int(np.prod(l.shape)) for l in leaves]
        if hout.shape[0] != sum(sizes):
            rec.violation("hyper/output-size", "hyper-network outputs %d values for %d inner parameters"
                          % (hout.shape[0], sum(sizes)))
            return
        off, new_leaves = 0, []
        for l, s in zip(leaves, sizes):
            new_leaves.append(jnp.asarray(hout[off:off + s].reshape(l.shape)))
            off += s
        inner = eqx.combine(jax.tree_util.tree_unflatten(jax.tree_util.tree_structure(u.params), new_leaves), u.static)
        ilayers = extract_layers(inner.layers, names)
        for ip in range(4):
            z = rng.uniform(-1, 2, D)
            lattice = ip == 3 and eqt != "ODE"
            if lattice:
                z[(1 if eqt == "nonstatio_PDE" else 0):] = rng.integers(-1, 3, dx)
                rec.count("calls_on_integer_lattice_points")
            raw = np.atleast_1d(forward_np(ilayers, in_np(z)).squeeze())
            full = np.atleast_1d(out_np(z, raw if n_out > 1 else raw.reshape(())))
            for j, uj in enumerate(ulist[1:] if hshared is not None else []):
                # the other shared-output wrappers: slices of the same hyper-generated inner network
                expj = np.atleast_1d(full[hsl[j + 1]])
                gotj = np.asarray(call_u(uj, z, params, int_x=lattice))
                rec.count("hyper_calls_compared")
                rec.count("shared_slice_form_%s" % slice_form(hsl[j + 1]))
                if gotj.shape != expj.shape or not close(gotj, expj, 1e-9, 1e-11):
                    rec.violation("hyper/shared-slice", "shared-output HYPERPINN %d gives %s, slice %s of the common network "
                                  "is %s" % (j + 1, gotj, hsl[j + 1], expj), got=gotj, expected=expj)
            exp = full if hshared is None else np.atleast_1d(full[hsl[0]])
            if hshared is not None:
                rec.count("shared_slice_form_%s" % slice_form(hsl[0]))
            got = np.asarray(call_u(u, z, params, int_x=lattice))
            rec.count("hyper_calls_compared")
            if np.max(np.abs(exp)) > 1e-12:
                rec.nontrivial((kind, eqt, dx, tuple(hyperparams), tuple(case["widths"]), n_out, ip, case["seed"]))
            rec.set_sample(kind=kind, eq_type=eqt, hyperparams=hyperparams, z=z, got=got, expected=exp)
            if eqt == "ODE":
                # a scalar time and a length-one time are the same call (how the ODE losses vmap the network)
                rec.count("scalar_time_calls")
                try:
                    got0 = np.asarray(call_u(u, z, params, scalar_t=True))
                    if got0.shape != got.shape or not close(got0, got, 1e-12, 1e-14):
                        rec.violation("hyper/scalar-vs-length-one-time", "u(t scalar) = %s but u(t (1,)) = %s" % (got0, got))
                except guard.Crash as c:
                    rec.violation("hyper/scalar-time-rejected", "hyper-network wrapper called with a scalar time: %s" % c)
            if got.shape != exp.shape or not close(got, exp, 1e-9, 1e-11):
                rec.violation("hyper/%s" % ("weight-layout" if len(leaves) > 2 else "value"),
                              "HYPERPINN output %s, manual hyper->split(leaf order)->forward gives %s (hyperparams %s)"
                              % (got, exp, hyperparams), got=got, expected=exp)
        return
