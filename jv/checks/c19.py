"""C19 - validation is called on schedule; early stopping and best parameters follow it.

Observe: (a) a scripted AbstractValidationModule written in the harness - its k-th call
returns (stop_k, crit_k, improve_k) from arrays and logs (k, digest(params)) through
jax.debug.callback - run inside the real jinns.solve; (b) the real ValidationLoss called
directly (compiled) on value sequences chosen by the harness (alphabet {1,2,3,NaN}: ties
included); (c) the real ValidationLoss inside solve with its own generators.
Oracle: models.ValidationAutomaton + the reference loop's post-update parameters.
"""
import itertools

import numpy as np

from .. import fields, guard, nets, refloop

PROPERTY = "C19"
LEVEL = "exploration"
RULE = ("(a) all scripts of length <= L over {stop, improve}^2 per call (L=3 quick, 4 thorough) x period P "
        "(2 quick; 1,2,3 thorough); (b) all validation-loss sequences of length 5 over {1,2,3,NaN} (quick: at most one NaN) x patience {0,1,2} x "
        "early stopping enabled/disabled by direct compiled calls; (c) ValidationLoss inside solve with its own "
        "data / parameter / observation generators x period x patience; (d) the same scripted / built-in runs with a NaN "
        "update injected (user optax transformation) at an iteration where validation is invoked, or just before it: "
        "that invocation must see the post-update NaN parameters and the run ends there; non-trivial = a script with at least one "
        "stop or improvement / a sequence with a tie or a non-monotone step; distinct = distinct scripts / sequences")
ASSUMPTIONS = [
    "the scripted module is exact about what it returns; its log is delivered by jax.debug.callback (events are keyed by call index, so delivery order is irrelevant)",
    "after the first stop request of a directly driven ValidationLoss the stop output is not checked (the statement speaks of the first such invocation)",
    "best parameters when no call flagged an improvement: the initial parameters",
    "a NaN validation loss is not a strict new minimum: no improvement, one more non-improving invocation, the running minimum is kept",
]
TIMEOUT = {"quick": 2400, "thorough": 7200}
MIN_COUNTERS = {"quick": {"scripted_runs": 80, "validation_calls_logged": 120, "builtin_direct_calls": 3000, "builtin_in_solve_runs": 8,
                          "runs_stopped_early": 20, "validation_calls_on_nan_params": 8,
                          "builtin_direct_calls_with_nan_loss": 1000},
                "thorough": {"scripted_runs": 900, "validation_calls_logged": 1200, "builtin_direct_calls": 25000,
                             "builtin_in_solve_runs": 60, "runs_stopped_early": 200, "validation_calls_on_nan_params": 30,
                             "builtin_direct_calls_with_nan_loss": 5000}}
_LOG = []


def exhaustive(tier):
    return True


def gen_cases(tier, seed):
    q = tier == "quick"
    L = 3 if q else 4
    periods = [2] if q else [1, 2, 3]
    scripts = []
    for l in range(1, L + 1):
        for s in itertools.product(range(4), repeat=l):
            scripts.append(list(s))
    cases = []
    chunk = 6
    for P in periods:
        for i in range(0, len(scripts), chunk):
            cases.append(dict(mode="scripted", scripts=scripts[i:i + chunk], P=P, seed=seed, cost=chunk * 0.6))
    # a NaN update injected at iteration k (C18's fault) meeting the validation schedule: the invocation at k must
    # see the post-update (NaN) parameters, the run ends after k; k on a call iteration and one before it
    fscripts = []
    for l in (2, 3):
        for prefix in itertools.product((0, 2), repeat=l - 1):
            for last in range(4):
                fscripts.append((list(prefix) + [last], l - 1, 0))
        for prefix in itertools.product((0, 2), repeat=l - 1):
            fscripts.append((list(prefix) + [2], l - 1, -1))
    for P in periods:
        for i in range(0, len(fscripts), chunk):
            part = [(sc, j * P + off) for sc, j, off in fscripts[i:i + chunk] if j * P + off >= 0 and (off == 0 or P > 1)]
            if part:
                cases.append(dict(mode="scripted", scripts=[sc for sc, _ in part], faults=[k for _, k in part], P=P,
                                  seed=seed, cost=chunk * 0.8))
    seqs = list(itertools.product((1, 2, 3), repeat=5))
    for pat in (0, 1, 2):
        for en in (True, False):
            cases.append(dict(mode="direct", patience=pat, enabled=en, seed=seed, tier=tier, cost=4.0))
    k = 0
    for P in ([1, 2] if q else [1, 2, 3]):
        for pat in (0, 1, 2):
            for en in (True, False):
                for aux in ["none", "param", "obs", "both"]:
                    k += 1
                    if aux == "none" and pat == 2:
                        # a run with a NaN update at an iteration where the built-in validation is invoked
                        cases.append(dict(mode="insolve", P=P, patience=pat, enabled=en, aux=aux, seed=seed * 1000 + k,
                                          fault=2 * P, cost=3.0))
                    if q and k % 4 != (P + pat) % 4:
                        continue
                    cases.append(dict(mode="insolve", P=P, patience=pat, enabled=en, aux=aux, seed=seed * 1000 + k, cost=3.0))
    return cases


def _log(k, dig):
    _LOG.append((int(k), float(dig)))


def digest(params):
    import jax
    import jax.numpy as jnp

    return sum(jnp.sum(x * (1.0 + 0.37 * i)) for i, x in enumerate(jax.tree_util.tree_leaves(params)))


_CLS = {}


def nan_update_at(base, k):
    """base optimizer followed by a user transformation that turns the update of step k into NaN (k None: none)"""
    import jax
    import jax.numpy as jnp
    import optax

    if k is None:
        return base

    def init(params):
        return jnp.zeros((), jnp.int32)

    def update(updates, state, params=None):
        hit = jnp.where(state == k, jnp.nan, 0.0)
        return jax.tree_util.tree_map(lambda x: x + hit, updates), state + 1

    return optax.chain(base, optax.GradientTransformation(init, update))


def scripted_cls():
    if "c" in _CLS:
        return _CLS["c"]
    import equinox as eqx
    import jax
    from jinns.validation import AbstractValidationModule

    class Scripted(AbstractValidationModule):
        stops: jax.Array
        crits: jax.Array
        improves: jax.Array
        k: jax.Array
        call_every: int = eqx.field(kw_only=True, default=1)

        def __call__(self, params):
            k = self.k
            jax.debug.callback(_log, k, digest(params))
            new = eqx.tree_at(lambda m: m.k, self, k + 1)
            return new, self.stops[k], self.crits[k], self.improves[k]

    _CLS["c"] = Scripted
    return Scripted


def training_problem(seed, rng, aux="none"):
    from .. import programs

    prog = dict(kind="ode", n=6, b=3, aux=aux, seed=seed)
    return programs.build_program(prog, rng)


def run_case(case, rec):
    if case["mode"] == "scripted":
        return run_scripted(case, rec)
    if case["mode"] == "direct":
        return run_direct(case, rec)
    return run_insolve(case, rec)


def run_scripted(case, rec):
    import jax
    import jax.numpy as jnp
    import jinns
    import optax

    rng = np.random.default_rng([case["seed"], 19])
    P = case["P"]
    Pb = training_problem(case["seed"] * 100 + 19, rng)
    opt = optax.sgd(5e-3)
    Scripted = scripted_cls()
    vgc = {}
    for si, script in enumerate(case["scripts"]):
        fault = case["faults"][si] if case.get("faults") else None
        opt = nan_update_at(optax.sgd(5e-3), fault)
        L = len(script)
        n = (L - 1) * P + 1 + (P - 1)  # last scripted call at (L-1)P, then up to the next call exclusive
        K = -(-n // P) + 1
        stops = np.zeros(K, bool)
        improves = np.zeros(K, bool)
        for j, s in enumerate(script):
            stops[j], improves[j] = bool(s & 1), bool(s & 2)
        crits = 10.0 + np.arange(K) * 1.5 + 0.25
        val = Scripted(stops=jnp.asarray(stops), crits=jnp.asarray(crits), improves=jnp.asarray(improves),
                       k=jnp.asarray(0), call_every=P)
        _LOG.clear()
        verb = dict(print_loss_every=2) if (si + P) % 3 == 0 else dict(verbose=False)
        if "verbose" not in verb:
            rec.count("runs_with_default_verbosity")
        out = guard.call_supported(jinns.solve, n_iter=n, init_params=Pb["params"], data=Pb["data"], loss=Pb["loss"], optimizer=opt,
                         validation=val, **verb)
        jax.effects_barrier()
        log = sorted(_LOG)
        _LOG.clear()
        ref = refloop.ref_loop(n, Pb["params"], Pb["data"], Pb["loss"], opt, prime=1, validation=val, vg_cache=vgc)
        jax.effects_barrier()
        ref_log = sorted(_LOG)
        _LOG.clear()
        rec.count("scripted_runs")
        rec.count("validation_calls_logged", len(log))
        label = "script=%s P=%d n=%d%s" % (script, P, n, "" if fault is None else " NaN update at iteration %d" % fault)
        sig = "scripted" if fault is None else "scripted/nan-fault"
        if fault is not None:
            rec.count("scripted_runs_with_nan_fault")
        # ---- automaton (A.4) for the schedule, independent of the reference loop
        exp_calls, stop_at = [], None
        for i in range(n):
            if i % P == 0:
                j = i // P
                exp_calls.append(i)
                if stops[j]:
                    stop_at = i
                    break
            if fault is not None and i == fault:
                stop_at = i  # C18: the run ends after the failing iteration (its validation call included)
                break
        n_done = (stop_at + 1) if stop_at is not None else n
        if stop_at is not None:
            rec.count("runs_stopped_early")
        if ref["val_calls"] != exp_calls or ref["n_done"] != n_done:
            rec.inconcl("reference loop and validation automaton disagree: %s/%s vs %s/%s" % (ref["val_calls"], ref["n_done"], exp_calls, n_done))
            continue
        if any(script):
            rec.nontrivial((tuple(script), P))
        params_out, hist, _, _, _, _, _, crit, best = out
        h, c = np.asarray(hist), np.asarray(crit) if crit is not None else None
        rec.set_sample(script=script, P=P, n=n, calls_logged=log, crit=c, expected_crit=ref["crit"], stop_at=stop_at)
        # calls: index k = 0,1,2.. exactly len(exp_calls) of them, with post-update parameters
        if [k for k, _ in log] != list(range(len(exp_calls))):
            rec.violation(sig + "/call-schedule", "%s: validation was invoked %d times (call indices %s), expected %d calls at "
                          "iterations %s" % (label, len(log), [k for k, _ in log], len(exp_calls), exp_calls))
        else:
            for (k, dg), (k2, dr) in zip(log, ref_log):
                if np.isnan(dr):
                    rec.count("validation_calls_on_nan_params")
                if np.isnan(dg) != np.isnan(dr) or (not np.isnan(dr) and abs(dg - dr) > 1e-9 * max(1.0, abs(dr))):
                    rec.violation(sig + "/params-seen-by-validation",
                                  "%s: call %d received parameters with digest %r, the post-update parameters of iteration "
                                  "%d have digest %r" % (label, k, dg, exp_calls[k], dr))
                    break
        if c is None:
            rec.violation(sig + "/no-criterion-history", "%s: no validation criterion history returned" % label)
            continue
        if not np.allclose(c[:n_done], ref["crit"][:n_done], rtol=1e-12, atol=0):
            rec.violation(sig + "/criterion-history", "%s: criterion history %s, expected (value at call iterations, carried "
                          "forward) %s" % (label, c[:n_done], ref["crit"][:n_done]))
        if np.any(c[n_done:] != 0.0) or np.any(h[n_done:] != 0.0):
            rec.violation(sig + "/run-did-not-stop", "%s: the run continued after iteration %d (first stop request): loss "
                          "history tail %s" % (label, n_done - 1, h[n_done:]))
        if np.any(h[:n_done] == 0.0):
            rec.violation(sig + "/run-stopped-too-early", "%s: the run ended before iteration %d" % (label, n_done - 1))
        ok, d = refloop.tree_close(best, ref["best"], 1e-6, 1e-9)
        if not ok:
            rec.violation(sig + "/best-params", "%s: best parameters are not those of the last improving invocation (%s)" % (label, d))
        ok, d = refloop.tree_close(params_out, ref["params"], 1e-6, 1e-9)
        if not ok:
            rec.violation(sig + "/final-params", "%s: returned parameters differ from the reference loop (%s)" % (label, d))


def const_loss(rng):
    """a real LossODE whose value is theta^2 (residual = theta, no other term)"""
    import jax
    import jax.numpy as jnp
    import jinns
    from jinns.parameters import Params

    if "const" not in _CLS:
        class ConstResid(jinns.loss.ODE):
            def equation(self, t, u, params):
                return jnp.reshape(jnp.sum(params.eq_params["theta"]), (1,)) + 0.0 * u(t, params)

        _CLS["const"] = ConstResid
    net = nets.Net(fields.TrigField(5, 1, 1), "ODE")
    params = Params(nn_params=net.nn_params(), eq_params={"theta": jnp.asarray(1.0)})
    loss = jinns.loss.LossODE(u=net.pinn(), dynamic_loss=_CLS["const"](), params=params)
    return loss, params


def run_direct(case, rec):
    import equinox as eqx
    import jax
    import jax.numpy as jnp
    import jinns
    from jinns.validation import ValidationLoss

    from .. import gens

    rng = np.random.default_rng([case["seed"], 191])
    loss, params = const_loss(rng)
    data = gens.make_generator(dict(kind="ode", key=3, nt=5, bt=2, tmin=0.0, tmax=1.0))
    pat, en = case["patience"], case["enabled"]
    vl0 = ValidationLoss(loss=loss, validation_data=data, call_every=1, early_stopping=en, patience=pat)
    step = jax.jit(lambda v, p: v(p))
    sig = "builtin/direct"
    nan = float("nan")
    seqs = [sq for sq in itertools.product((1, 2, 3, nan), repeat=5)
            if sum(1 for x in sq if x != x) <= (1 if case.get("tier") == "quick" else 5)]
    for seq in seqs:
        vl = vl0
        best, c = np.inf, 0
        stopped = False
        for j, s in enumerate(seq):
            p = eqx.tree_at(lambda q: q.eq_params["theta"], params, jnp.asarray(float(s)))
            vl, stop, value, improve = guard.call(step, vl, p)
            rec.count("builtin_direct_calls")
            v = float(s) ** 2
            exp_stop = bool(en and c == pat)
            exp_imp = v < best
            if exp_imp:
                best, c = v, 0
            else:
                c += 1
            label = "sequence %s patience=%d enabled=%s call %d" % (list(seq), pat, en, j)
            if v != v:
                rec.count("builtin_direct_calls_with_nan_loss")
            if (float(value) != float(value)) != (v != v) or abs(float(value) - v) > 1e-12:
                rec.violation(sig + "/criterion-value", "%s: returned criterion %r, the loss on its own batch is %r" % (label, float(value), v))
            if bool(improve) != exp_imp:
                rec.violation(sig + "/improvement-flag/%s" % ("tie" if v == best and not exp_imp else "value"),
                              "%s: improvement flag %s, expected %s (strict new minimum)" % (label, bool(improve), exp_imp))
            if not stopped and bool(stop) != exp_stop:
                rec.violation(sig + "/stop-request/%s" % ("disabled" if not en else "patience"),
                              "%s: stop request %s, expected %s" % (label, bool(stop), exp_stop))
            if exp_stop:
                stopped = True
        if len(set(seq)) < 5:
            rec.nontrivial((tuple(str(x) for x in seq), pat, en))
    rec.set_sample(mode="direct", patience=pat, enabled=en, sequences=len(seqs))


def run_insolve(case, rec):
    import jax
    import jax.numpy as jnp
    import jinns
    import optax
    from jinns.validation import ValidationLoss

    from .. import gens

    rng = np.random.default_rng([case["seed"], 192])
    jax.clear_caches()
    Pb = training_problem(case["seed"], rng, aux=case["aux"])
    P, pat, en = case["P"], case["patience"], case["enabled"]
    # the validation generators have their own batch size (2 or 3; the training generators use 3)
    vb = 2 + case["seed"] % 2
    vdata = gens.make_generator(dict(kind="ode", key=case["seed"] % 89 + 5, nt=5, bt=vb, tmin=0.0, tmax=1.0))
    vparam = vobs = None
    if case["aux"] in ("param", "both"):
        vparam = jinns.data.DataGeneratorParameter(jax.random.PRNGKey(case["seed"] % 77), 7, vb, param_ranges={"kappa": (-1.0, -0.2)})
    if case["aux"] in ("obs", "both"):
        vobs = jinns.data.DataGeneratorObservations(jax.random.PRNGKey(case["seed"] % 55), vb, jnp.asarray(rng.uniform(0, 1, (7, 1))),
                                                    jnp.asarray(rng.uniform(-1, 1, (7, 1))))
    vloss = Pb["loss"]
    if case["seed"] % 2 and case["aux"] == "none":
        # a different loss object for validation: same network and equation, initial state shifted, so that
        # training makes the validation criterion go up as well as down (exercises the patience counter)
        pr = Pb["problem"]
        old_u0 = pr.u0
        pr.u0 = old_u0 + np.array([1.5, -1.5])[case["seed"] % 4 // 2]
        pr.w = dict(pr.w, dyn=0.0)
        vloss = pr.loss(dk="both")
        pr.u0 = old_u0
    val = ValidationLoss(loss=vloss, validation_data=vdata, validation_param_data=vparam, validation_obs_data=vobs,
                         call_every=P, early_stopping=en, patience=pat)
    opt = nan_update_at(optax.sgd(5e-3), case.get("fault"))
    n = 9
    out = guard.call_supported(jinns.solve, n_iter=n, init_params=Pb["params"], data=Pb["data"], loss=Pb["loss"], optimizer=opt,
                     param_data=Pb["param_data"], obs_data=Pb["obs_data"], validation=val,
                     **(dict(print_loss_every=3) if case["seed"] % 3 == 0 else dict(verbose=False)))
    # the reference does NOT call the real ValidationLoss: it steps the validation generators itself, evaluates the
    # validation loss on its own successive batches and applies the automaton of Appendix A.4
    class RefVal:
        def __init__(self):
            self.call_every, self.best, self.c = P, np.inf, 0
            self.g = [vdata, vparam, vobs]

        def __call__(self, params):
            self.g[0], b = self.g[0].get_batch()
            if self.g[1] is not None:
                self.g[1], pb = self.g[1].get_batch()
                b = jinns.data.append_param_batch(b, pb)
            if self.g[2] is not None:
                self.g[2], ob = self.g[2].get_batch()
                b = jinns.data.append_obs_batch(b, ob)
            v = float(vloss(params, b)[0])
            stop = bool(en and self.c == pat)
            improve = v < self.best
            if improve:
                self.best, self.c = v, 0
            else:
                self.c += 1
            return self, stop, v, improve

    ref = refloop.ref_loop(n, Pb["params"], Pb["data"], Pb["loss"], opt, param_data=Pb["param_data"], obs_data=Pb["obs_data"],
                           prime=1, validation=RefVal())
    rec.count("builtin_in_solve_runs")
    nd = ref["n_done"]
    if nd < n:
        rec.count("runs_stopped_early")
    params_out, hist, _, _, _, _, _, crit, best = out
    h, c = np.asarray(hist), np.asarray(crit)
    label = "P=%d patience=%d enabled=%s aux=%s" % (P, pat, en, case["aux"])
    sig = "builtin/in-solve"
    if case.get("fault") is not None:
        label += " NaN update at iteration %d" % case["fault"]
        sig += "/nan-fault"
        rec.count("builtin_in_solve_runs_with_nan_fault")
        if nd == case["fault"] + 1 and np.isnan(ref["crit"][nd - 1]):
            rec.count("validation_calls_on_nan_params")
    rec.nontrivial((P, pat, en, case["aux"], case["seed"], case.get("fault")))
    rec.set_sample(P=P, patience=pat, enabled=en, aux=case["aux"], crit=c, expected=ref["crit"], stopped_after=nd)
    diverged = refloop.has_nan(ref["final_params"])
    if diverged:
        rec.count("runs_ended_by_nan")  # legitimate stop (C18); the comparison below still applies
    if not en and nd != n and not diverged:
        rec.inconcl("reference stopped with early stopping disabled and without NaN")
        return
    if not np.allclose(c[:nd], ref["crit"][:nd], rtol=1e-6, atol=1e-9, equal_nan=True):
        rec.violation(sig + "/criterion-history", "%s: criterion history %s vs reference %s" % (label, c[:nd], ref["crit"][:nd]))
    if np.any(h[nd:] != 0.0):
        rec.violation(sig + "/run-did-not-stop" + ("/early-stopping-disabled" if not en else ""),
                      "%s: run continued after iteration %d" % (label, nd - 1))
    if np.any(h[:nd] == 0.0):
        rec.violation(sig + "/run-stopped-too-early" + ("/early-stopping-disabled" if not en else ""),
                      "%s: run ended before iteration %d: %s" % (label, nd - 1, h))
    ok, d = refloop.tree_close(best, ref["best"], 1e-6, 1e-9)
    if not ok:
        rec.violation(sig + "/best-params", "%s: best parameters differ from the last improving invocation (%s)" % (label, d))
