"""C17 - refinement adds the highest-residual candidates and keeps active points.

Observe: the guarded hook's events (candidate points of each step) and the generator store /
probability mask before and after every directly driven trigger_rar call and every
get_batch in between (which forces reshuffles); end to end through jinns.solve with a
zero learning rate.  Oracle: squared residual of the current parameters recomputed here in
numpy at each candidate; expected additions = the top candidates (top space-time pairs for
product domains); store diff: only inactive slots change, active points survive.
"""
import collections

import numpy as np

from .. import gens, guard, rarsim

PROPERTY = "C17"
LEVEL = "exploration"
RULE = ("histories = the schedules of C16 (start, period, initial and total counts for time and space, equal or not, "
        "selected / candidate sizes) with 0..3 batch draws between iterations, for ODE, stationary 2-D, non-stationary "
        "1-D / 2-D generators, direct drive and end-to-end; non-trivial = a step whose candidates are not all selected "
        "(so the ranking matters) ; distinct = distinct (schedule, step index)")
ASSUMPTIONS = [
    "the hook's candidate points are trusted; its residuals and chosen indices are NOT: residuals are recomputed in numpy from the analytic field",
    "steps whose selection boundary is a near-tie (relative gap < 1e-9) are skipped and counted",
    "product domains: times = time coordinates of the top selected_times pairs, space = spatial coordinates of the top selected_omega pairs, in rank order",
]
TIMEOUT = {"quick": 2400, "thorough": 7200}
MIN_COUNTERS = {"quick": {"steps_checked": 60, "steps_with_ranking": 30, "draws_checked": 100, "unequal_start_steps": 10},
                "thorough": {"steps_checked": 900, "steps_with_ranking": 400, "draws_checked": 1500, "unequal_start_steps": 150}}


def gen_cases(tier, seed):
    q = tier == "quick"
    cs = rarsim.gen_rar_cases(tier, seed + 1, 44 if q else 500, 8 if q else 60)
    for c in cs:
        c["draws"] = max(c["draws"], 1)
    return cs


def rows_ms(arr, mask=None):
    a = np.asarray(arr)
    a = a.reshape(a.shape[0], -1)
    if mask is not None:
        a = a[np.asarray(mask) > 0]
    return collections.Counter(gens.rowkey(r) for r in a)


def crash_signature(case, c):
    return "crash/%s/%s/%s" % (case.get("kind"), "system-loss" if case.get("system") else "single-loss", c.etype)


def run_case(case, rec):
    if not rarsim.hook_available():
        rec.inconcl("guarded hook JINNS_VERIF is not active in jinns.solver._rar")
        return
    try:
        R = guard.call(rarsim.drive, case)
    except guard.Unsupported as u:
        rec.unsupp(u.reason)
        return
    B = R["built"]
    pk, d = B["pk"], B["d"]
    sig = "rar/%s" % pk
    label = "%s start=%d every=%d n_start=%d nt_start=%d n=%d nt=%d sel=(%d,%d) cand=(%d,%d) mode=%s" % (
        case["kind"], case["start"], case["every"], case["n_start"], case["nt_start"], case["n"], case["nt"],
        case["sel_t"], case["sel_x"], case["cand_t"], case["cand_x"], case["mode"])
    streams = [s for s in ("times", "omega") if s in R["init"]]

    def check_step(before, after, ev, step_no):
        rec.count("steps_checked")
        if case["n_start"] != case["nt_start"] and pk == "nonstatio":
            rec.count("unequal_start_steps")
        # ---- candidates in the domain
        if "candidates_t" in ev:
            ct = np.asarray(ev["candidates_t"]).reshape(-1)
            if np.any(ct < B["tmin"]) or np.any(ct > B["tmax"]):
                rec.violation(sig + "/candidate-outside-domain/time", "%s: candidate times %s outside [%g,%g]" % (label, ct, B["tmin"], B["tmax"]))
        if "candidates_x" in ev:
            cx = np.asarray(ev["candidates_x"])
            for ax in range(cx.shape[1]):
                if np.any(cx[:, ax] < B["mins"][ax]) or np.any(cx[:, ax] > B["maxs"][ax]):
                    rec.violation(sig + "/candidate-outside-domain/space", "%s: candidate points outside the box on axis %d" % (label, ax))
        # ---- expected additions
        exp_add = {}
        tie = False
        if case.get("system") and pk != "ode":
            # PDE systems: the code ranks (sum of the equations' residuals)^2, the ODE branch sum of squares: the
            # statement does not say which for several equations - only the store invariants are checked there
            rec.count("system_pde_steps_store_checks_only")
            for s in streams:
                st_b, st_a, pb, pa = before[s], after[s], before["p_" + s], after["p_" + s]
                changed = np.array([not np.array_equal(np.asarray(st_b[j]), np.asarray(st_a[j])) for j in range(len(st_b))])
                if np.any(changed & (pb > 0)):
                    rec.violation(sig + "/active-slot-overwritten/" + s, "%s: step %d overwrote active %s slots" % (label, step_no, s))
                if rows_ms(st_b, pb) - rows_ms(st_a, pa):
                    rec.violation(sig + "/active-point-lost/" + s, "%s: step %d lost active %s points" % (label, step_no, s))
            return
        if pk == "ode":
            ct = np.asarray(ev["candidates_t"]).reshape(-1)
            r = np.array([rarsim.sq_residual(B, [t]) for t in ct])
            order = np.argsort(-r)
            k = case["sel_t"]
            tie = len(r) > k and abs(r[order[k - 1]] - r[order[k]]) <= 1e-9 * max(r[order[k - 1]], 1e-30)
            exp_add["times"] = collections.Counter(gens.rowkey(np.array([ct[j]])) for j in order[:k])
            ranking = len(r) > k
        elif pk == "statio":
            cx = np.asarray(ev["candidates_x"])
            r = np.array([rarsim.sq_residual(B, x) for x in cx])
            order = np.argsort(-r)
            k = case["sel_x"]
            tie = len(r) > k and abs(r[order[k - 1]] - r[order[k]]) <= 1e-9 * max(r[order[k - 1]], 1e-30)
            exp_add["omega"] = collections.Counter(gens.rowkey(cx[j]) for j in order[:k])
            ranking = len(r) > k
        else:
            ct = np.asarray(ev["candidates_t"]).reshape(-1)
            cx = np.asarray(ev["candidates_x"])
            M = np.array([[rarsim.sq_residual(B, np.concatenate([[t], x])) for x in cx] for t in ct])
            flat = M.reshape(-1)
            order = np.argsort(-flat)
            kmax = max(case["sel_t"], case["sel_x"])
            tie = len(flat) > kmax and abs(flat[order[kmax - 1]] - flat[order[kmax]]) <= 1e-9 * max(flat[order[kmax - 1]], 1e-30)
            # ties inside the top-k change the rank order, which matters because sel_t != sel_x truncate differently
            top = flat[order[:kmax]]
            if len(top) > 1 and np.min(np.abs(np.diff(top))) <= 1e-9 * max(np.max(top), 1e-30):
                tie = True
            ti, xi = np.unravel_index(order[:kmax], M.shape)
            exp_add["times"] = collections.Counter(gens.rowkey(np.array([ct[j]])) for j in ti[:case["sel_t"]])
            exp_add["omega"] = collections.Counter(gens.rowkey(cx[j]) for j in xi[:case["sel_x"]])
            ranking = len(flat) > kmax
        # the scores the step ranks its candidates with (reported by the guarded hook) must order the candidates as
        # their squared residuals do - for every selected size, not only the configured one (monotone rescalings pass;
        # pairs closer than 1e-6 relative are not judged)
        if "mse_on_s" in ev:
            ref_scores = (M.reshape(-1) if pk == "nonstatio" else r)
            ms = np.asarray(ev["mse_on_s"], dtype=float).reshape(-1)
            if ms.shape == ref_scores.shape and len(ms) >= 2:
                o = np.argsort(-ref_scores)
                a, b_ = ref_scores[o], ms[o]
                clear = (a[:-1] - a[1:]) > 1e-6 * np.maximum(a[:-1], 1e-30)
                rec.count("candidate_orderings_compared")
                bad = clear & (b_[:-1] < b_[1:] - 1e-9 * np.maximum(np.abs(b_[:-1]), 1e-30))
                if np.any(bad):
                    j = int(np.argmax(bad))
                    rec.violation(sig + "/candidates-not-ranked-by-squared-residual",
                                  "%s: step %d ranks a candidate with squared residual %r below one with %r (scores %r < %r)"
                                  % (label, step_no, a[j], a[j + 1], b_[j], b_[j + 1]))
        if tie:
            rec.count("steps_skipped_near_tie")
            return
        if ranking:
            rec.count("steps_with_ranking")
            rec.nontrivial((tuple(sorted((k_, v) for k_, v in case.items() if k_ != "cost")), step_no))
        for s in streams:
            st_b, st_a = before[s], after[s]
            pb, pa = before["p_" + s], after["p_" + s]
            changed = np.array([not np.array_equal(np.asarray(st_b[j]), np.asarray(st_a[j])) for j in range(len(st_b))])
            # only inactive slots are overwritten
            if np.any(changed & (pb > 0)):
                rec.violation(sig + "/active-slot-overwritten/" + s,
                              "%s: step %d overwrote %d %s slot(s) that had non-zero probability (positions %s)"
                              % (label, step_no, int(np.sum(changed & (pb > 0))), s, np.where(changed & (pb > 0))[0][:6]))
            act_b, act_a = rows_ms(st_b, pb), rows_ms(st_a, pa)
            lost = act_b - act_a
            if lost:
                rec.violation(sig + "/active-point-lost/" + s, "%s: step %d: %d previously active %s point(s) are no longer active"
                              % (label, step_no, sum(lost.values()), s))
            added = act_a - act_b
            if added != exp_add[s]:
                in_store = rows_ms(st_a) - rows_ms(st_b)
                kind_ = "value"
                if in_store == exp_add[s]:
                    kind_ = "written-but-not-activated"
                elif sum(added.values()) == sum(exp_add[s].values()):
                    kind_ = "not-the-highest-residual-candidates"
                rec.violation(sig + "/added-points/%s/%s" % (s, kind_),
                              "%s: step %d activated %d new %s point(s); expected the %d highest-residual candidate(s) "
                              "(%d of the activated ones are among them)"
                              % (label, step_no, sum(added.values()), s, sum(exp_add[s].values()),
                                 sum((added & exp_add[s]).values())))
        rec.set_sample(case={k_: v for k_, v in case.items() if k_ != "cost"}, step=step_no,
                       candidates={k_: np.asarray(v) for k_, v in ev.items() if k_.startswith("candidates")},
                       expected_added={s: len(exp_add[s]) for s in exp_add})

    step_no = 0
    if case["mode"] == "direct":
        for h in R["history"]:
            if h["kind"] == "draw":
                rec.count("draws_checked")
                for s in streams:
                    if rows_ms(h["before"][s], h["before"]["p_" + s]) != rows_ms(h["after"][s], h["after"]["p_" + s]):
                        rec.violation(sig + "/reshuffle-moves-active-points/" + s,
                                      "%s: a batch draw changed the set of active %s points (iteration %d)" % (label, s, h["i"]))
                    if rows_ms(h["before"][s]) != rows_ms(h["after"][s]):
                        rec.violation(sig + "/reshuffle-changes-store/" + s, "%s: a batch draw changed the stored %s points" % (label, s))
                continue
            if len(h["events"]) == 1:
                step_no += 1
                check_step(h["before"], h["after"], h["events"][0], step_no)
            elif len(h["events"]) == 0:
                for s in streams:
                    if not np.array_equal(h["before"][s], h["after"][s]) or not np.array_equal(h["before"]["p_" + s], h["after"]["p_" + s]):
                        rec.violation(sig + "/store-changed-without-step/" + s, "%s: iteration %d changed the %s store without a refinement step" % (label, h["i"], s))
    else:
        # end to end: only the union of additions can be checked (draws and steps interleave inside solve)
        h = R["history"][0]
        evs = sorted(h["events"], key=lambda e: int(e["i"]))
        for s in streams:
            act_b, act_a = rows_ms(h["before"][s], h["before"]["p_" + s]), rows_ms(h["after"][s], h["after"]["p_" + s])
            lost = act_b - act_a
            rec.count("draws_checked")
            if lost:
                rec.violation(sig + "/active-point-lost/" + s, "%s: end to end: %d initially active %s point(s) are no longer active"
                              % (label, sum(lost.values()), s))
        for e in evs:
            step_no += 1
            rec.count("steps_checked")
        rec.set_sample(case={k_: v for k_, v in case.items() if k_ != "cost"}, e2e_steps=[int(e["i"]) for e in evs])
