"""C05 - initial-condition, normalisation and observation terms match their definitions.

Observe: terms['initial_condition' | 'norm_loss' | 'observations'] of the real LossODE /
LossPDEStatio / LossPDENonStatio.  Oracle: numpy formulas on analytic fields; the network
reads equation parameters through its input/output transforms, so a misaligned or
un-batched observed parameter changes the value.
"""
import numpy as np

from .. import fields, guard, nets
from ..core import close

PROPERTY = "C05"
LEVEL = "exploration"
RULE = ("cases = term (initial condition ODE/PDE, normalisation stationary/non-stationary, observations "
        "ODE/stationary/non-stationary) x field x sizes (norm samples 1..50, tables 1..20 rows, batch 1..12) x "
        "t0 != 0, vector/scalar initial states, volumes != 1, obs_slice subsets, observed parameters none/one/"
        "two, with and without a simultaneous parameter batch, scalar and per-component weights; non-trivial "
        "= expected term > 1e-6 (and, for normalisation, mean-of-squares differs from square-of-mean by > 1%); "
        "distinct = distinct configuration tuples")
ASSUMPTIONS = [
    "normalisation: w * (V * mean_j u(x_j) - 1)^2, averaged over the batch times when u depends on time; u is scalar: "
    "the only output, or the channel selected by the network's slice_solution when it has auxiliary outputs",
    "per-component weights only where the reduction is component-wise (PDE initial condition, observations)",
    "separable networks: initial-condition and normalisation terms against the closed form of an analytic separable field "
    "(observations on separable networks are refused by jinns: not covered)",
    "observed parameters reach the network through transforms that reduce them with jnp.sum (identity for a row)",
]
TIMEOUT = {"quick": 1500, "thorough": 5400}
MIN_COUNTERS = {"quick": {"terms_compared": 150, "obs_with_observed_params": 15, "norm_cases": 30, "ic_cases": 30,
                          "spinn_separable_terms_vs_closed_form": 20},
                "thorough": {"terms_compared": 1800, "obs_with_observed_params": 200, "norm_cases": 400, "ic_cases": 400,
                             "spinn_separable_terms_vs_closed_form": 280}}

KINDS = ["ic_ode", "ic_pde", "norm_statio", "norm_nonstatio", "obs_ode", "obs_statio", "obs_nonstatio"]


def gen_cases(tier, seed):
    rng = np.random.default_rng(seed + 505)
    q = tier == "quick"
    cases = []
    for k in range(210 if q else 2100):
        kind = KINDS[k % len(KINDS)]
        d = int(rng.integers(1, 3))
        n_out = 1 if kind.startswith("norm") else int(rng.integers(1, 4))
        c = dict(kind=kind, d=d, n_out=n_out, seed=seed * 100000 + k, cost=1.0, x64=bool(k % 11 != 3),
                 B=int(rng.integers(1, 13)), w=float(np.round(rng.uniform(0.3, 3.0), 3)))
        if kind == "ic_ode":
            c.update(t0=float(np.round(rng.uniform(-1, 2), 3)), pbatch=bool(rng.integers(2)))
        if kind == "ic_pde":
            c.update(u0shape=["(k,)", "()"][int(rng.integers(2))], wvec=bool(rng.integers(2)),
                     cartesian=bool(rng.integers(2)), nt=int(rng.integers(1, 4)), pbatch=bool(k % 3 == 1))
        if kind.startswith("norm"):
            c.update(S=int(rng.integers(1, 51)), V=float(np.round(rng.uniform(0.2, 6.0), 3)),
                     nt=int(rng.integers(1, 5)))
            if k % 3 == 2:
                # a network with auxiliary outputs: the solution u is the channel selected by slice_solution
                c["n_out"] = 2 + (k // 3) % 2
                c["sol"] = int(rng.integers(c["n_out"]))
        if kind.startswith("obs"):
            a = int(rng.integers(n_out))
            b = int(rng.integers(a + 1, n_out + 1))
            sa = int(rng.integers(b - a))
            sb = int(rng.integers(sa + 1, b - a + 1))
            c.update(n=int(rng.integers(1, 21)), slice_solution=[a, b],
                     obs_slice=None if rng.integers(3) == 0 else [sa, sb],
                     observed=[[], ["theta"], ["phi"], ["theta", "phi"]][int(rng.integers(4))],
                     pbatch=bool(rng.integers(2)), wvec=bool(rng.integers(2)))
            c["B"] = min(c["B"], c["n"])
        cases.append(c)
    # separable networks: initial-condition and normalisation terms on a SPINN (tensor grid of the batch / of the
    # normalisation samples) against the closed form of an analytic separable field (term builder shared with C11)
    for k in range(24 if q else 300):
        cases.append(dict(kind="spinn_term", term=["norm_statio", "norm_nonstatio", "ic"][k % 3], d=1 + (k // 3) % 2,
                          r=int(rng.integers(1, 4)), m=int(rng.integers(1, 3)), B=int(rng.integers(2, 4)),
                          judge="closed", seed=seed * 1000 + k, cost=3.0, x64=True))
    return cases


def run_case(case, rec):
    import jax
    import jax.numpy as jnp
    import jinns
    from jinns.parameters import Params

    if case["kind"] == "spinn_term":
        from . import c11
        from ..core import Rec

        sub = Rec(case)
        try:
            c11.run_case(dict(case, kind="term"), sub)
        finally:
            for k_, v_ in sub.counters.items():
                if k_ != "violations_raw":
                    rec.count("spinn_" + k_, v_)
            for key in sub.keys:
                rec.nontrivial(key)
            rec.sample = rec.sample or sub.sample
            for u_ in sub.unsupported:
                rec.unsupp(u_)
            for v_ in sub.violations:
                rec.violation("spinn/" + v_["sig"], v_["what"], **(v_["witness"] or {}))
        return
    kind, d, n_out = case["kind"], case["d"], case["n_out"]
    rng = np.random.default_rng([case["seed"], 9])
    if case["seed"] % 6 == 0:
        rec.count("eager_evaluations")
        jit_eval = lambda l, p, b: l.evaluate(p, b)
    else:
        jit_eval = jax.jit(lambda l, p, b: l.evaluate(p, b))
    w = case["w"]

    def finish(term, got, expected, sig, nontrivial_key, **wit):
        rec.count("terms_compared")
        if abs(expected) > 1e-6:
            rec.nontrivial(nontrivial_key)
        rec.set_sample(kind=kind, term=term, got=got, expected=expected, **wit)
        if not close(got, expected, 1e-8, 1e-10):
            rec.violation(sig, "%s term %r, expected %r (%s)" % (term, got, expected, kind),
                          got=got, expected=expected, **wit)

    # ------------------------------------------------------------------ initial condition, ODE
    if kind == "ic_ode":
        f = fields.TrigField(case["seed"], 1, n_out)
        net = nets.Net(f, "ODE", reads=("theta",))
        u = net.pinn()
        eq = {"theta": jnp.asarray(1.7), "phi": jnp.asarray(0.0)}
        params = Params(nn_params=net.nn_params(), eq_params=eq)
        u0 = rng.uniform(-1, 1, n_out)
        t0 = case["t0"]
        # the ways a user writes (t0, u0) and the weight: Python number / 0-d array / length-one array for t0, an array
        # or (scalar unknown) a Python number for u0
        form = case["seed"] % 6
        t0_given = [t0, jnp.asarray(t0), jnp.asarray([t0])][form % 3]
        u0_given = float(u0[0]) if (n_out == 1 and form >= 3) else jnp.asarray(u0)
        # (one weight: the statement does not promise per-component weights for this term and LossODE applies the
        # weight after the sum over components; the weight is given as a Python number or as a 0-d array)
        rec.count("ic_ode_form_%d" % form)
        loss = guard.call(jinns.loss.LossODE, u=u, dynamic_loss=None, initial_condition=(t0_given, u0_given),
                          loss_weights=jinns.loss.LossWeightsODE(initial_condition=jnp.asarray(w) if form in (1, 4) else w),
                          params=params)
        B = case["B"]
        batch = jinns.data.ODEBatch(temporal_batch=jnp.asarray(rng.uniform(0, 1, B)))
        thetas = None
        if case["pbatch"]:
            thetas = rng.uniform(0.5, 2.0, (B, 1))
            batch = jinns.data.append_param_batch(batch, {"theta": jnp.asarray(thetas)})
        if case["seed"] % 2:
            # the batch also carries observations with an observed equation parameter the network reads: that is the
            # observation term's business only, the initial-condition term keeps the caller's / the batch's value
            no = 3
            batch = jinns.data.append_obs_batch(batch, {"pinn_in": jnp.asarray(rng.uniform(0, 1, (no, 1))),
                                                        "val": jnp.asarray(rng.uniform(-1, 1, (no, n_out))),
                                                        "eq_params": {"theta": jnp.asarray(rng.uniform(3.0, 5.0, (no, 1)))}})
            rec.count("ic_cases_with_observed_eq_params_in_batch")
        total, terms = guard.call(jit_eval, loss, params, batch)
        if thetas is None:
            exp = float(np.sum(w * (net.val([t0], {"theta": 1.7}) - u0) ** 2))
        else:
            exp = float(np.mean([np.sum(w * (net.val([t0], {"theta": th[0]}) - u0) ** 2) for th in thetas]))
        rec.count("ic_cases")
        finish("initial_condition", float(terms["initial_condition"]), exp,
               "initial-condition/ode" + ("/param-batch" if case["pbatch"] else ""),
               (kind, n_out, case["pbatch"], case["seed"]), t0=t0, u0=u0)
        return

    # ------------------------------------------------------------------ initial condition, PDE
    if kind == "ic_pde":
        f = fields.TrigField(case["seed"], 1 + d, n_out)
        pb_ic = bool(case.get("pbatch"))
        net = nets.Net(f, "nonstatio_PDE", reads=("theta",) if pb_ic else ())
        u = net.pinn()
        params = Params(nn_params=net.nn_params(), eq_params={"nu": jnp.asarray(1.0), "theta": jnp.asarray(1.7)})
        al = rng.uniform(-1, 1, n_out)
        be = rng.uniform(-1, 1, (n_out, d))
        A, Bm = jnp.asarray(al), jnp.asarray(be)
        if case["u0shape"] == "()":
            u0j = lambda x: (A + Bm @ x)[0]
            u0n = lambda x: (al + be @ x)[:1]
        else:
            u0j = lambda x: A + Bm @ x
            u0n = lambda x: al + be @ x
        wv = rng.uniform(0.3, 3.0, n_out) if case["wvec"] else w
        loss = guard.call(jinns.loss.LossPDENonStatio, u=u, dynamic_loss=None, initial_condition_fun=u0j,
                          loss_weights=jinns.loss.LossWeightsPDENonStatio(
                              initial_condition=jnp.asarray(wv) if case["wvec"] else w),
                          params=params)
        B, nt = case["B"], case["nt"]
        xs = rng.uniform(-1, 2, (B, d))
        ts = rng.uniform(0, 1, nt)
        if case["cartesian"]:
            tx = np.concatenate([np.repeat(ts, B)[:, None], np.tile(xs, (nt, 1))], axis=1)
        else:
            tx = np.concatenate([rng.uniform(0, 1, (B, 1)), xs], axis=1)
        batch = jinns.data.PDENonStatioBatch(times_x_inside_batch=jnp.asarray(tx), times_x_border_batch=None)
        thetas = None
        if pb_ic:
            # a parameter batch (one row per batch point) of a parameter the network reads: point i is compared with
            # the network evaluated with row i
            thetas = rng.uniform(0.5, 2.0, (tx.shape[0], 1))
            batch = jinns.data.append_param_batch(batch, {"theta": jnp.asarray(thetas)})
            rec.count("ic_pde_cases_with_param_batch")
        total, terms = guard.call(jit_eval, loss, params, batch)
        vals = []
        for i_, row in enumerate(tx):
            x = row[1:]
            r = u0n(x) - net.val(np.concatenate([[0.0], x]), {"theta": thetas[i_, 0] if pb_ic else 1.7})
            vals.append(float(np.sum(np.asarray(wv) * r ** 2)))
        rec.count("ic_cases")
        finish("initial_condition", float(terms["initial_condition"]), float(np.mean(vals)),
               "initial-condition/pde/u0-returns-%s%s" % (case["u0shape"], "/param-batch" if pb_ic else ""),
               (kind, d, n_out, case["u0shape"], case["wvec"], case["cartesian"], case["seed"]), batch_shape=list(tx.shape))
        return

    # ------------------------------------------------------------------ normalisation
    if kind.startswith("norm"):
        nonst = kind == "norm_nonstatio"
        f = fields.TrigField(case["seed"], d + (1 if nonst else 0), n_out, scale=1.0)
        sol = case.get("sol", 0)
        net = nets.Net(f, "nonstatio_PDE" if nonst else "statio_PDE",
                       **({"slice_solution": jnp.s_[sol:sol + 1]} if n_out > 1 else {}))
        if n_out > 1:
            rec.count("norm_cases_with_auxiliary_outputs")
        u = net.pinn()
        params = Params(nn_params=net.nn_params(), eq_params={"nu": jnp.asarray(1.0)})
        S, V = case["S"], case["V"]
        samples = rng.uniform(-1, 2, (S, d))
        if nonst:
            Loss, LW = jinns.loss.LossPDENonStatio, jinns.loss.LossWeightsPDENonStatio
        else:
            Loss, LW = jinns.loss.LossPDEStatio, jinns.loss.LossWeightsPDEStatio
        loss = guard.call(Loss, u=u, dynamic_loss=None, norm_samples=jnp.asarray(samples), norm_int_length=V,
                          loss_weights=LW(norm_loss=w), params=params)
        if nonst:
            B, nt = case["B"], case["nt"]
            ts = rng.uniform(0, 1, nt)
            tx = np.concatenate([np.repeat(ts, B)[:, None], np.tile(rng.uniform(-1, 2, (B, d)), (nt, 1))], axis=1)
            batch = jinns.data.PDENonStatioBatch(times_x_inside_batch=jnp.asarray(tx), times_x_border_batch=None)
            per_t, alt = [], []
            for row in tx:
                us = np.array([net.val(np.concatenate([[row[0]], x]))[sol] for x in samples])
                per_t.append((V * np.mean(us) - 1.0) ** 2)
                alt.append(np.mean((V * us - 1.0) ** 2))
            exp, alt = w * float(np.mean(per_t)), w * float(np.mean(alt))
        else:
            batch = jinns.data.PDEStatioBatch(inside_batch=jnp.asarray(rng.uniform(-1, 2, (case["B"], d))),
                                              border_batch=None)
            us = np.array([net.val(x)[sol] for x in samples])
            exp = w * float((V * np.mean(us) - 1.0) ** 2)
            alt = w * float(np.mean((V * us - 1.0) ** 2))
        total, terms = guard.call(jit_eval, loss, params, batch)
        got = float(terms["norm_loss"])
        rec.count("norm_cases")
        discr = abs(alt - exp) > 0.01 * max(abs(exp), 1e-9)
        sig = "norm/%s/pinn/%s" % ("nonstatio" if nonst else "statio",
                                   "mean-of-squares" if (discr and close(got, alt, 1e-8, 1e-10)) else "value")
        if n_out > 1:
            sig += "/auxiliary-outputs"
        rec.count("terms_compared")
        if abs(exp) > 1e-6 and discr:
            rec.nontrivial((kind, d, S, V, case["seed"]))
        rec.set_sample(kind=kind, S=S, V=V, got=got, expected=exp, mean_of_squares_alternative=alt)
        if not close(got, exp, 1e-8, 1e-10):
            rec.violation(sig, "normalisation term %r, expected w*(V*mean u - 1)^2 = %r (mean of squared pointwise "
                          "deviations would be %r); S=%d V=%g" % (got, exp, alt, S, V), got=got, expected=exp, alt=alt)
        return

    # ------------------------------------------------------------------ observations
    eqt = {"obs_ode": "ODE", "obs_statio": "statio_PDE", "obs_nonstatio": "nonstatio_PDE"}[kind]
    D = {"obs_ode": 1, "obs_statio": d, "obs_nonstatio": d + 1}[kind]
    f = fields.TrigField(case["seed"], D, n_out)
    a, b = case["slice_solution"]
    net = nets.Net(f, eqt, reads=("theta", "phi"), slice_solution=jnp.s_[a:b])
    u = net.pinn()
    eq0 = {"theta": 1.3, "phi": 0.4, "other": 5.0}
    params = Params(nn_params=net.nn_params(), eq_params={k: jnp.asarray(v) for k, v in eq0.items()})
    n, B = case["n"], case["B"]
    pin = rng.uniform(-1, 2, (n, D))
    nobs = (b - a) if case["obs_slice"] is None else case["obs_slice"][1] - case["obs_slice"][0]
    vals = rng.uniform(-1, 1, (n, nobs))
    tabs = {k: rng.uniform(0.5, 2.0, (n, 1)) for k in case["observed"]}
    jax.clear_caches()
    og = guard.call(jinns.data.DataGeneratorObservations, jax.random.PRNGKey(case["seed"] % 7919), B,
                    jnp.asarray(pin), jnp.asarray(vals), {k: jnp.asarray(v) for k, v in tabs.items()})
    og, ob = guard.call(og.get_batch)
    wv = rng.uniform(0.3, 3.0, nobs) if case["wvec"] else w
    oslice = None if case["obs_slice"] is None else jnp.s_[case["obs_slice"][0]:case["obs_slice"][1]]
    kw = dict(u=u, dynamic_loss=None, obs_slice=oslice, params=params)
    if kind == "obs_ode":
        loss = guard.call(jinns.loss.LossODE, loss_weights=jinns.loss.LossWeightsODE(
            observations=jnp.asarray(wv) if case["wvec"] else w), **kw)
        batch = jinns.data.ODEBatch(temporal_batch=jnp.asarray(rng.uniform(0, 1, B)))
    elif kind == "obs_statio":
        loss = guard.call(jinns.loss.LossPDEStatio, loss_weights=jinns.loss.LossWeightsPDEStatio(
            observations=jnp.asarray(wv) if case["wvec"] else w), **kw)
        batch = jinns.data.PDEStatioBatch(inside_batch=jnp.asarray(rng.uniform(-1, 2, (B, d))), border_batch=None)
    else:
        loss = guard.call(jinns.loss.LossPDENonStatio, loss_weights=jinns.loss.LossWeightsPDENonStatio(
            observations=jnp.asarray(wv) if case["wvec"] else w), **kw)
        batch = jinns.data.PDENonStatioBatch(times_x_inside_batch=jnp.asarray(rng.uniform(0, 1, (B, 1 + d))),
                                             times_x_border_batch=None)
    if nobs == 1 and case["seed"] % 3 == 1:
        # a hand-built observation batch of a scalar quantity: values given as a (B,) vector instead of (B, 1)
        ob = dict(ob, val=ob["val"][:, 0])
        rec.count("obs_values_of_shape_(B,)")
    batch = jinns.data.append_obs_batch(batch, ob)
    pb = None
    if case["pbatch"]:
        free = [k for k in ("theta", "phi") if k not in case["observed"]] or ["other"]
        pb = {free[0]: rng.uniform(0.5, 2.0, (B, 1))}
        if case["observed"] and case["seed"] % 2:
            # the parameter batch also carries a key that is observed: for the observation term the observed row wins
            pb[case["observed"][0]] = rng.uniform(2.5, 3.5, (B, 1))
            rec.count("obs_key_also_in_param_batch")
        batch = jinns.data.append_param_batch(batch, {k: jnp.asarray(v) for k, v in pb.items()})
    sigp = "observations/%s" % kind[4:]
    attrs = ("/observed-eq-params" if case["observed"] else "") + ("/param-batch" if case["pbatch"] else "")
    try:
        total, terms = guard.call(jit_eval, loss, params, batch)
    except guard.Crash as c:
        rec.violation(sigp + attrs + "/crash", "observation term crashed: %s" % c, observed=case["observed"],
                      pbatch=case["pbatch"])
        if case["observed"]:
            rec.count("obs_with_observed_params")
        return
    bi, bv = np.asarray(ob["pinn_in"]), np.asarray(ob["val"]).reshape(B, -1)
    rows = []
    for i in range(B):
        eq = dict(eq0)
        for k in case["observed"]:
            eq[k] = float(np.asarray(ob["eq_params"][k])[i, 0])
        if pb is not None:
            for k, v in pb.items():
                if k not in case["observed"]:
                    eq[k] = float(v[i, 0])
        full = net.val(bi[i], eq)[a:b]
        sel = full if case["obs_slice"] is None else full[case["obs_slice"][0]:case["obs_slice"][1]]
        rows.append(float(np.sum(np.asarray(wv) * (sel - bv[i]) ** 2)))
    exp = float(np.mean(rows))
    if case["observed"]:
        rec.count("obs_with_observed_params")
    got = float(terms["observations"])
    rec.count("obs_cases")
    finish("observations", got, exp, sigp + attrs + "/value",
           (kind, d, n_out, tuple(case["slice_solution"]), str(case["obs_slice"]), tuple(case["observed"]),
            case["pbatch"], case["wvec"], case["seed"]),
           observed=case["observed"], pbatch=case["pbatch"], B=B)
