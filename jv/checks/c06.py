"""C06 - derivative keys route each term's gradient to exactly the selected parameters.

Observe: jax.grad / jax.jacrev of the real loss.evaluate (total and every returned term)
with respect to the real Params, for boolean-tree masks passed both as traced data (one
compilation, exhaustive enumeration) and as Python bools (fresh trace per assignment),
for the string forms and for the defaults.  Oracle: the per-term gradients dT/dg taken
from the all-selected loss; expected d total / d g = sum over selecting terms.
"""
import itertools

import numpy as np

from .. import guard
from ..core import close

PROPERTY = "C06"
LEVEL = "exploration"
RULE = ("assignments of {selected, not selected} to every (loss term, parameter group) pair, groups = network, "
        "theta, phi (both read by the network and the equation, so every pair has a non-zero gradient) and kappa "
        "(equation only): ODE 3 terms (exhaustive 2^9 on the three main groups), stationary 4 terms (2^12: "
        "exhaustive in the thorough tier), non-stationary 5 terms (random + all single-bit / all-but-one; 2^15 "
        "exhaustive in the thorough tier), 2-unknown systems (random masks per unknown); string forms (3^k), "
        "defaults and partially specified keys (every subset size of terms given, the rest left to the default); a case is one assignment; non-trivial = at least one selected and one unselected pair with "
        "|dT/dg| > 1e-6; distinct = distinct (kind, assignment)")
ASSUMPTIONS = [
    "the 'gradient of a term' is the gradient of that returned term in the all-selected loss (term values themselves: C03-C05)",
    "no granularity inside the network parameters (documented)",
    "system dynamic terms always use the default (network parameters only): only per-unknown constraint terms are enumerated",
]
TIMEOUT = {"quick": 1800, "thorough": 7200}
MIN_COUNTERS = {"quick": {"assignments_checked": 900, "static_mask_assignments": 20, "string_forms_checked": 30,
                          "system_assignments_checked": 40, "nonzero_pairs_min": 1, "partial_specifications_checked": 15,
                          "assignments_on_parameter_batches": 200, "system_dyn_default_checks": 4, "edge_of_domain_checks": 6, "forward_problem_assignments": 8},
                "thorough": {"assignments_checked": 30000, "static_mask_assignments": 100, "string_forms_checked": 150,
                             "system_assignments_checked": 400, "nonzero_pairs_min": 1, "partial_specifications_checked": 60,
                             "assignments_on_parameter_batches": 1000, "system_dyn_default_checks": 4, "edge_of_domain_checks": 18, "forward_problem_assignments": 24}}
GROUPS = ["nn", "theta", "phi", "kappa"]
TERMS = {"ode": ["dyn_loss", "initial_condition", "observations"],
         "statio": ["dyn_loss", "norm_loss", "boundary_loss", "observations"],
         "nonstatio": ["dyn_loss", "norm_loss", "boundary_loss", "observations", "initial_condition"]}
PARTS = {"ode": ["ic", "obs"], "statio": ["boundary", "norm", "obs"], "nonstatio": ["ic", "boundary", "norm", "obs"]}


def exhaustive(tier):
    return True  # ODE always, stationary/non-stationary in the thorough tier (stated in coverage.exhaustive_scopes)


def gen_cases(tier, seed):
    q = tier == "quick"
    cases = []
    nchunk = 4
    for kind in ("ode", "statio", "nonstatio"):
        nbits = 3 * len(TERMS[kind])
        full = (kind == "ode") or not q
        for c in range(nchunk if full else 1):
            cases.append(dict(mode="enum", kind=kind, d=0 if kind == "ode" else 1, full=full, chunk=c, nchunk=nchunk if full else 1,
                              nrand=300, seed=seed, n_out=1, ncomp=2, cost=3.0 if full and nbits > 9 else 1.0))
        # the same enumeration (random sample) on a batch carrying per-sample equation parameters
        cases.append(dict(mode="enum", kind=kind, d=0 if kind == "ode" else 1, full=False, chunk=0, nchunk=1, nrand=120 if q else 600,
                          seed=seed + 17, n_out=1, ncomp=2, pbatch=True, cost=1.5))
        for part in range(1 if q else 3):
            cases.append(dict(mode="static", kind=kind, d=0 if kind == "ode" else 1, n=8 if q else 17, seed=seed + 1000 * part,
                              n_out=1, ncomp=2, cost=4.0))
            cases.append(dict(mode="strings", kind=kind, d=0 if kind == "ode" else 1, n=12 if q else 40, seed=seed + 1000 * part,
                              n_out=1, ncomp=2, cost=3.0))
    for kind in ("ode", "nonstatio", "statio"):
        cases.append(dict(mode="system", kind=kind, d=0 if kind == "ode" else 1, n=16 if q else 140, seed=seed, cost=3.0))
    return cases


def flat(tree):
    import jax

    ls = [np.asarray(x, dtype=float).reshape(-1) for x in jax.tree_util.tree_leaves(tree)]
    return np.concatenate(ls) if ls else np.zeros(0)


def run_case(case, rec):
    import equinox as eqx
    import jax
    import jax.numpy as jnp
    import jinns
    from jinns.parameters import Params

    from .c12 import EQ0, Problem

    rng = np.random.default_rng([case["seed"], 6, {"ode": 0, "statio": 1, "nonstatio": 2}[case["kind"]]])
    kind = case["kind"]
    if case["mode"] == "system":
        return run_system(case, rec, rng)
    terms = TERMS[kind]
    pc = dict(case, seed=case["seed"] * 100000 + 66)
    pr = Problem(pc, rng, PARTS[kind], reads=("theta", "phi"))
    pr.make_data(3)
    loss = guard.call(pr.loss, dk="both")
    params = pr.params
    batch = pr.batch()
    if case.get("pbatch"):
        batch = pr.batch(param_batch={"kappa": -rng.uniform(0.4, 1.6, (3, 1))})
        rec.count("assignments_on_parameter_batches", 0)
    DK = type(loss.derivative_keys)
    dk_name = {"initial_condition": "initial_condition", "dyn_loss": "dyn_loss", "observations": "observations",
               "norm_loss": "norm_loss", "boundary_loss": "boundary_loss"}

    def mask_tree(bits, as_array):
        """bits[(term, group)] -> DerivativeKeys object"""
        conv = (lambda b: jnp.asarray(bool(b))) if as_array else (lambda b: bool(b))
        kw = {}
        for t in terms:
            kw[dk_name[t]] = Params(nn_params=conv(bits[(t, "nn")]),
                                    eq_params={g: conv(bits[(t, g)]) for g in ("theta", "phi", "kappa")})
        return DK(**kw)

    def observe(l, p, b):
        def f(pp):
            tot, tr = l.evaluate(pp, b)
            return jnp.stack([tot] + [tr[t] for t in terms])

        vals = f(p)
        jac = jax.jacrev(f)(p)
        return vals, jac

    obs_jit = jax.jit(observe)

    def split(jac):
        """-> array [1+nterms, ngroups] of gradient blocks (flattened per group)"""
        out = []
        for i in range(1 + len(terms)):
            row = {"nn": flat(jax.tree_util.tree_map(lambda a: a[i], jac.nn_params))}
            for g in ("theta", "phi", "kappa"):
                row[g] = np.asarray(jac.eq_params[g][i], dtype=float).reshape(-1)
            out.append(row)
        return out

    all_true = {(t, g): 1 for t in terms for g in GROUPS}
    vals0, jac0 = guard.call(obs_jit, eqx.tree_at(lambda l: l.derivative_keys, loss, mask_tree(all_true, True)), params, batch)
    vals0 = np.asarray(vals0)
    G = split(jac0)  # G[1+k][g] = d term_k / d g (all selected)
    nz = {(t, g): float(np.max(np.abs(G[1 + k][g]))) > 1e-6 for k, t in enumerate(terms) for g in GROUPS}
    main_pairs = [(t, g) for t in terms for g in ("nn", "theta", "phi")]
    rec.count("nonzero_pairs_min", int(all(nz[p] for p in main_pairs)))
    if not all(nz[p] for p in main_pairs):
        # by construction every such pair has a non-zero derivative (the network reads theta and phi).  A zero gradient
        # of a SELECTED pair is decided with central finite differences of the term's value (values do not depend on
        # the derivative specification): a selected pair must contribute its gradient
        l_all = eqx.tree_at(lambda l: l.derivative_keys, loss, mask_tree(all_true, True))
        decided = False
        for (t, g) in [p for p in main_pairs if not nz[p] and p[1] != "nn"]:
            k = terms.index(t)
            h = 1e-5
            vals_pm = []
            for sgn in (+1, -1):
                pp = eqx.tree_at(lambda q: q.eq_params[g], params, params.eq_params[g] + sgn * h)
                vals_pm.append(float(np.asarray(guard.call(obs_jit, l_all, pp, batch)[0])[1 + k]))
            fd = (vals_pm[0] - vals_pm[1]) / (2 * h)
            if abs(fd) > 1e-4:
                decided = True
                rec.violation("selected-pair-contributes-nothing/%s/%s" % (kind, t),
                              "term %s selects %s but its gradient with respect to %s is exactly 0, while the term's value "
                              "changes at rate %r with %s (central differences)" % (t, g, g, fd, g), fd=fd)
        if not decided:
            rec.inconcl("some (term, group) pair has a zero gradient: %s" % [p for p in main_pairs if not nz[p]])
        return

    def check(bits, vals, jac, sig, label):
        vals = np.asarray(vals)
        S = split(jac)
        if not close(vals, vals0, 1e-12, 1e-14):
            rec.violation(sig + "/loss-value-depends-on-mask", "loss values change with the derivative specification: "
                          "%s vs %s" % (vals, vals0), bits=label)
        for gi, g in enumerate(GROUPS):
            exp_tot = sum((G[1 + k][g] if bits[(t, g)] else 0.0 * G[1 + k][g]) for k, t in enumerate(terms))
            if not close(S[0][g], exp_tot, 1e-9, 1e-11):
                wrong = [t for k, t in enumerate(terms) if not close(S[1 + k][g], G[1 + k][g] if bits[(t, g)] else 0 * G[1 + k][g], 1e-9, 1e-11)]
                rec.violation("%s/total-gradient/%s" % (sig, "network" if g == "nn" else "eq-param"),
                              "d total / d %s = %s, expected sum over selecting terms %s (terms routed wrongly: %s; mask %s)"
                              % (g, S[0][g][:3], np.asarray(exp_tot)[:3], wrong, label), group=g, wrong_terms=wrong)
            for k, t in enumerate(terms):
                if bits[(t, g)]:
                    ok = close(S[1 + k][g], G[1 + k][g], 1e-9, 1e-11)
                else:
                    ok = bool(np.all(S[1 + k][g] == 0.0))
                if not ok:
                    rec.violation("%s/term-gradient/%s/%s" % (sig, t, "selected" if bits[(t, g)] else "unselected-nonzero"),
                                  "d %s / d %s = %s with mask bit %d (all-selected gradient %s)"
                                  % (t, g, S[1 + k][g][:3], bits[(t, g)], G[1 + k][g][:3]), mask=label)
        sel = [p for p in main_pairs if bits[p]]
        if sel and len(sel) < len(main_pairs):
            rec.nontrivial((kind, label))

    # ------------------------------------------------------------------ enumeration with masks as data
    if case["mode"] == "enum":
        nbits = len(main_pairs)
        if case["full"]:
            codes = range(case["chunk"], 2 ** nbits, case["nchunk"])
        else:
            codes = set(int(c) for c in rng.integers(0, 2 ** nbits, case["nrand"]))
            codes |= {1 << i for i in range(nbits)} | {(2 ** nbits - 1) ^ (1 << i) for i in range(nbits)} | {0, 2 ** nbits - 1}
            codes = sorted(codes)
        for code in codes:
            bits = {p: (code >> i) & 1 for i, p in enumerate(main_pairs)}
            for t in terms:
                bits[(t, "kappa")] = (code >> (hash(t) % nbits)) & 1 if False else ((code + len(t)) % 2)
            l2 = eqx.tree_at(lambda l: l.derivative_keys, loss, mask_tree(bits, True))
            vals, jac = guard.call(obs_jit, l2, params, batch)
            rec.count("assignments_checked")
            if case.get("pbatch"):
                rec.count("assignments_on_parameter_batches")
            check(bits, vals, jac, "mask-as-data/%s%s" % (kind, "/param-batch" if case.get("pbatch") else ""), code)
        rec.set_sample(kind=kind, mode="enum", n_assignments=len(list(codes)), terms=terms, groups=GROUPS,
                       all_selected_term_values=vals0[1:], nonzero_pairs=sum(nz.values()))
        return
    # ------------------------------------------------------------------ masks as Python bools (fresh trace each)
    if case["mode"] == "static":
        nbits = len(main_pairs)
        codes = [0, 2 ** nbits - 1] + [int(c) for c in rng.integers(0, 2 ** nbits, case["n"])]
        for code in codes:
            bits = {p: (code >> i) & 1 for i, p in enumerate(main_pairs)}
            for t in terms:
                bits[(t, "kappa")] = (code + len(t)) % 2
            l2 = eqx.tree_at(lambda l: l.derivative_keys, loss, mask_tree(bits, False),
                             is_leaf=lambda x: isinstance(x, bool))
            # rebuild through the public constructor path instead: a loss object with this specification
            l2 = guard.call(type(loss), **_loss_kwargs(pr, mask_tree(bits, False)))
            closed = rec.counters.get("static_mask_assignments", 0) % 2 == 1
            if closed:
                # the loss as the user built it, closed over by the differentiated function (it never goes through a
                # pytree flatten, so its specification keeps the user's key order theta, phi, kappa)
                vals, jac = guard.call(jax.jit(lambda p_, b_: observe(l2, p_, b_)), params, batch)
                rec.count("assignments_with_loss_closed_over")
            else:
                vals, jac = guard.call(jax.jit(observe), l2, params, batch)
            if rec.counters.get("static_mask_assignments", 0) % 10 == 9:
                jax.clear_caches()  # every assignment compiles afresh: keep the JIT code memory bounded
            rec.count("static_mask_assignments")
            rec.count("assignments_checked")
            check(bits, vals, jac, "python-bool-mask/%s%s" % (kind, "/loss-closed-over" if closed else ""), code)
        rec.set_sample(kind=kind, mode="static", codes=codes[:6])
        return
    # ------------------------------------------------------------------ string forms and defaults
    if case["mode"] == "strings":
        strs = ["nn_params", "eq_params", "both"]
        combos = list(itertools.product(strs, repeat=len(terms)))
        pick = [combos[int(i)] for i in rng.choice(len(combos), min(case["n"], len(combos)), replace=False)]
        for combo in pick:
            kw = {dk_name[t]: s for t, s in zip(terms, combo)}
            dk = guard.call(DK.from_str, params, **kw)
            bits = {}
            for t, s in zip(terms, combo):
                bits[(t, "nn")] = int(s in ("nn_params", "both"))
                for g in ("theta", "phi", "kappa"):
                    bits[(t, g)] = int(s in ("eq_params", "both"))
            # equivalence of the two forms: the tree built from strings equals the boolean tree
            ref = mask_tree(bits, False)
            la, lb = jax.tree_util.tree_leaves(dk), jax.tree_util.tree_leaves(ref)
            rec.count("string_forms_checked")
            if jax.tree_util.tree_structure(dk) != jax.tree_util.tree_structure(ref) or [bool(x) for x in la] != [bool(x) for x in lb]:
                rec.violation("string-form/%s/tree-differs" % kind, "from_str%s builds %s, expected %s" % (combo, la, lb))
            l2 = guard.call(type(loss), **_loss_kwargs(pr, dk))
            vals, jac = guard.call(jax.jit(observe), l2, params, batch)
            if rec.counters.get("string_forms_checked", 0) % 10 == 9:
                jax.clear_caches()
            rec.count("assignments_checked")
            check(bits, vals, jac, "string-form/%s" % kind, "-".join(combo))
        # from_str with only SOME terms named: every unnamed term gets the documented default (network parameters only)
        for ss in [tuple(t for t in terms if t != tt) for tt in terms] + [(tt,) for tt in terms] + [()]:
            kw = {dk_name[t]: "both" for t in ss}
            dk = guard.call(DK.from_str, params, **kw)
            bits = {(t, g): int(g == "nn" or t in ss) for t in terms for g in GROUPS}
            l2 = guard.call(type(loss), **_loss_kwargs(pr, dk))
            vals, jac = guard.call(jax.jit(observe), l2, params, batch)
            if rec.counters.get("partial_string_forms_checked", 0) % 10 == 9:
                jax.clear_caches()
            rec.count("partial_string_forms_checked")
            rec.count("assignments_checked")
            check(bits, vals, jac, "string-form/%s/unnamed-terms-default" % kind, "named=%s" % "+".join(ss))
        # defaults: DerivativeKeys(params=...) and a loss built without derivative_keys
        bits = {(t, g): int(g == "nn") for t in terms for g in GROUPS}
        for label, dk in (("keys-default", guard.call(DK, params=params)), ("loss-default", None)):
            l2 = guard.call(type(loss), **_loss_kwargs(pr, dk))
            vals, jac = guard.call(jax.jit(observe), l2, params, batch)
            rec.count("defaults_checked")
            check(bits, vals, jac, "default/%s/%s" % (kind, label), label)
        # partially specified keys through the plain constructor: the given masks are honoured, every term left
        # unspecified (None) gets the default (network parameters only)
        subsets = [ss for r_ in range(1, len(terms)) for ss in itertools.combinations(terms, r_)]
        first = [ss for ss in subsets if len(ss) == len(terms) - 1] + [ss for ss in subsets if len(ss) == 1]
        rest = [ss for ss in subsets if ss not in first]
        chosen = first + [rest[int(i)] for i in rng.permutation(len(rest))[: max(0, case["n"] // 2 - len(first))]]
        for ss in chosen:
            code = int(rng.integers(0, 2 ** (4 * len(terms))))
            bits = {}
            for ti, t in enumerate(terms):
                for gi, g in enumerate(GROUPS):
                    bits[(t, g)] = ((code >> (4 * ti + gi)) & 1) if t in ss else int(g == "nn")
            kw = {dk_name[t]: Params(nn_params=bool(bits[(t, "nn")]),
                                     eq_params={g: bool(bits[(t, g)]) for g in ("theta", "phi", "kappa")}) for t in ss}
            try:
                dk = guard.call(DK, params=params, **kw)
                l2 = guard.call(type(loss), **_loss_kwargs(pr, dk))
                vals, jac = guard.call(jax.jit(observe), l2, params, batch)
            except guard.Crash as c:
                rec.count("partial_specifications_checked")
                rec.violation("partial-specification/%s/crash/%s" % (kind, c.etype),
                              "keys given for %s only (others left to the default): %s" % ("+".join(ss), c))
                continue
            if rec.counters.get("partial_specifications_checked", 0) % 10 == 9:
                jax.clear_caches()
            rec.count("partial_specifications_checked")
            rec.count("assignments_checked")
            check(bits, vals, jac, "partial-specification/%s" % kind, "given=%s code=%d" % ("+".join(ss), code))
        if kind in ("ode", "statio"):
            edge_of_domain(rec, kind, pr, rng)
        if kind == "ode":
            forward_problem(rec, pr, rng)
        rec.set_sample(kind=kind, mode="strings", combos=[list(c) for c in pick[:4]])
        return


def edge_of_domain(rec, kind, pr, rng):
    """An unselected (term, group) pair contributes EXACTLY zero - also when that term's own gradient with respect to
    the group is infinite (a parameter at the edge of its domain: sqrt(sq) at sq = 0, loss value finite)."""
    import jax
    import jax.numpy as jnp
    import jinns
    from jinns.parameters import Params

    from .. import eqs

    params = Params(nn_params=pr.net.nn_params(), eq_params={"theta": jnp.asarray(0.8), "phi": jnp.asarray(0.3),
                                                             "kappa": jnp.asarray(-0.6), "sq": jnp.asarray(0.0)})
    if kind == "ode":
        Loss, dyn, DKc = jinns.loss.LossODE, eqs.SqrtODE(), jinns.parameters.DerivativeKeysODE
        batch = jinns.data.ODEBatch(temporal_batch=jnp.asarray(rng.uniform(0, 1, 4)))
    else:
        Loss, dyn, DKc = jinns.loss.LossPDEStatio, eqs.SqrtStatio(), jinns.parameters.DerivativeKeysPDEStatio
        batch = jinns.data.PDEStatioBatch(inside_batch=jnp.asarray(rng.uniform(-1, 2, (4, pr.D))), border_batch=None)
    mask = Params(nn_params=True, eq_params={"theta": True, "phi": False, "kappa": False, "sq": False})
    specs = {"default": None, "from_str": guard.call(DKc.from_str, params, dyn_loss="nn_params"),
             "boolean-tree": guard.call(DKc, params=params, dyn_loss=mask)}
    for label, dk in specs.items():
        l = guard.call(Loss, u=pr.net.pinn(), dynamic_loss=dyn, params=params, **({"derivative_keys": dk} if dk is not None else {}))
        val, g = guard.call(jax.jit(jax.value_and_grad(lambda p: l.evaluate(p, batch)[0])), params)
        rec.count("edge_of_domain_checks")
        gs = float(np.asarray(g.eq_params["sq"]))
        if not np.isfinite(float(val)):
            rec.inconcl("edge-of-domain loss value is not finite")
            continue
        if gs != 0.0:
            rec.violation("edge-of-domain/%s/unselected-pair-not-exactly-zero/%s" % (kind, label),
                          "d total / d sq = %r for an unselected parameter whose own gradient is infinite (sqrt at 0); an "
                          "unselected pair contributes exactly zero" % gs)
        gn = flat(g.nn_params)
        if not np.all(np.isfinite(gn)) or not np.any(gn != 0.0):
            rec.violation("edge-of-domain/%s/network-gradient/%s" % (kind, label),
                          "network gradient is not finite / is zero although the network parameters are selected")
        if label == "boolean-tree" and not np.isfinite(float(np.asarray(g.eq_params["theta"]))):
            rec.violation("edge-of-domain/%s/selected-finite-gradient/%s" % (kind, label), "d total / d theta is not finite")


def forward_problem(rec, pr, rng):
    """A plain forward problem: eq_params is empty, the only parameter group is the network.  Each term's mask still
    decides whether that term's gradient reaches the network."""
    import jax
    import jax.numpy as jnp
    import jinns
    from jinns.parameters import Params

    from .. import eqs, fields, nets

    net = nets.Net(fields.TrigField(int(rng.integers(1, 10 ** 6)), 1, 1), "ODE")  # reads no equation parameter
    params = Params(nn_params=net.nn_params(), eq_params={})
    batch = jinns.data.ODEBatch(temporal_batch=jnp.asarray(rng.uniform(0, 1, 4)))
    DKc = jinns.parameters.DerivativeKeysODE
    tnames = ["dyn_loss", "initial_condition"]

    def build(dk):
        return guard.call(jinns.loss.LossODE, u=net.pinn(), dynamic_loss=eqs.ForwardODE(), params=params,
                          initial_condition=(0.25, jnp.asarray([0.4])), **({"derivative_keys": dk} if dk is not None else {}))

    def grads(l):
        f = lambda p: jnp.stack([l.evaluate(p, batch)[0]] + [l.evaluate(p, batch)[1][t] for t in tnames])
        return np.asarray(f(params)), [flat(jax.tree_util.tree_map(lambda a, i=i: a[i], jax.jacrev(f)(params).nn_params))
                                       for i in range(1 + len(tnames))]

    v0, G = grads(build(None))  # default = network selected everywhere
    if not all(np.max(np.abs(g)) > 1e-7 for g in G[1:]):
        rec.inconcl("forward problem: a term has no gradient with respect to the network")
        return
    for bits in itertools.product((0, 1), repeat=len(tnames)):
        forms = {"boolean-tree": DKc(params=params, **{t: Params(nn_params=bool(b), eq_params={}) for t, b in zip(tnames, bits)}),
                 "from_str": guard.call(DKc.from_str, params, **{t: ("nn_params" if b else "eq_params") for t, b in zip(tnames, bits)})}
        for label, dk in forms.items():
            v, S = grads(build(dk))
            rec.count("forward_problem_assignments")
            if not close(v, v0, 1e-12, 1e-14):
                rec.violation("forward-problem/loss-value-depends-on-mask/%s" % label, "values %s vs %s" % (v, v0))
            exp_tot = sum(G[1 + k] * b for k, b in enumerate(bits))
            if not close(S[0], exp_tot, 1e-9, 1e-11):
                rec.violation("forward-problem/total-gradient/network/%s" % label,
                              "eq_params is empty, masks %s: d total / d nn = %s, expected the sum over selecting terms %s"
                              % (dict(zip(tnames, bits)), S[0][:3], np.asarray(exp_tot)[:3]))
            for k, b in enumerate(bits):
                if not b and np.any(S[1 + k] != 0.0):
                    rec.violation("forward-problem/term-gradient/%s/unselected-nonzero/%s" % (tnames[k], label),
                                  "eq_params is empty: d %s / d nn = %s although the term does not select the network" % (tnames[k], S[1 + k][:3]))


def _loss_kwargs(pr, dk):
    """constructor arguments of the single loss of Problem pr with derivative specification dk"""
    import jax.numpy as jnp
    import jinns

    kind, parts = pr.kind, pr.parts
    kw = dict(u=pr.net.pinn(), dynamic_loss=pr.spec.module(kind), params=pr.params)
    if dk is not None:
        kw["derivative_keys"] = dk
    if kind == "ode":
        kw["loss_weights"] = jinns.loss.LossWeightsODE(dyn_loss=pr.w["dyn"], initial_condition=pr.w["ic"], observations=pr.w["obs"])
        kw["initial_condition"] = (pr.t0, jnp.asarray(pr.u0))
        return kw
    kw["omega_boundary_fun"] = (lambda dx: pr.fb) if kind == "statio" else (lambda t, dx: pr.fb)
    kw["omega_boundary_condition"] = "dirichlet"
    kw["norm_samples"] = jnp.asarray(pr.norm_samples)
    kw["norm_int_length"] = pr.V
    if kind == "statio":
        kw["loss_weights"] = jinns.loss.LossWeightsPDEStatio(dyn_loss=pr.w["dyn"], boundary_loss=pr.w["boundary"],
                                                             norm_loss=pr.w["norm"], observations=pr.w["obs"])
        return kw
    c0 = jnp.asarray(pr.u0)
    kw["initial_condition_fun"] = lambda x: c0 + 0.0 * jnp.sum(x)
    kw["loss_weights"] = jinns.loss.LossWeightsPDENonStatio(dyn_loss=pr.w["dyn"], boundary_loss=pr.w["boundary"], norm_loss=pr.w["norm"],
                                                            observations=pr.w["obs"], initial_condition=pr.w["ic"])
    return kw


def run_system(case, rec, rng):
    import equinox as eqx
    import jax
    import jax.numpy as jnp
    import jinns
    from jinns.parameters import Params

    from .c13 import SystemProblem

    kind = case["kind"]
    parts = PARTS[kind]
    names = ["a", "b"]
    sp = SystemProblem(dict(kind=kind, d=case["d"], E=2, U=2, names=names, eqnames=["e1", "e2"], weights="dict",
                            per_u={n: [p for p in parts if p != "norm"] for n in names}, B=3,
                            seed=case["seed"] * 100000 + 613), rng)
    # networks must read theta and phi so that every pair has a gradient
    from .. import fields, nets
    sp.nets = {n: nets.Net(fields.TrigField(777 + i, sp.D, 1), sp.eqt, reads=("theta", "phi")) for i, n in enumerate(names)}
    sp.u0 = {n: sp.u0[n][:1] for n in names}
    sp.obs_slice = {n: None for n in names}
    sp.bdim = {n: None for n in names}
    sp.make_data(3)
    for n in names:
        sp.obs_val[n] = sp.obs_val[n][:, :1]
    loss = guard.call(sp.loss)
    pd = sp.params
    batch = sp.batch()
    cterms = [t for t in TERMS[kind] if t not in ("dyn_loss", "norm_loss")]
    DK = type(loss.u_constraints_dict[names[0]].derivative_keys)
    allt = TERMS[kind] if kind != "ode" else TERMS["ode"]

    def dk_for(bits, n, as_array=True):
        conv = (lambda b: jnp.asarray(bool(b))) if as_array else bool
        kw = {}
        for t in [f for f in ("dyn_loss", "observations", "initial_condition", "boundary_loss", "norm_loss")
                  if hasattr(loss.u_constraints_dict[n].derivative_keys, f)]:
            kw[t] = Params(nn_params=conv(bits.get((n, t, "nn"), 1)),
                           eq_params={g: conv(bits.get((n, t, g), 1)) for g in ("theta", "phi", "kappa")})
        return DK(**kw)

    def with_masks(bits):
        l2 = loss
        for n in names:
            l2 = eqx.tree_at(lambda l, n=n: l.u_constraints_dict[n].derivative_keys, l2, dk_for(bits, n))
        return l2

    tnames = sorted(loss.evaluate(pd, batch)[1].keys())

    def observe(l, p, b):
        def f(pp):
            tot, tr = l.evaluate(pp, b)
            return jnp.stack([tot] + [tr[t] for t in tnames])
        return f(p), jax.jacrev(f)(p)

    obs_jit = jax.jit(observe)

    def blocks(jac, i):
        out = {("nn", n): flat(jax.tree_util.tree_map(lambda a: a[i], jac.nn_params[n])) for n in names}
        for g in ("theta", "phi"):
            out[g] = np.asarray(jac.eq_params[g][i], float).reshape(-1)
        return out

    # reference gradients: unknown k fully selected, the other fully unselected
    ref = {}
    zero_bits = {(n, t, g): 0 for n in names for t in TERMS["nonstatio"] for g in GROUPS}
    vals_base, jac_base = guard.call(obs_jit, with_masks(zero_bits), pd, batch)
    base = {t: blocks(jac_base, 1 + i) for i, t in enumerate(tnames)}  # dyn part only (network, default keys)
    # the system's dynamic term uses the default specification (network parameters only): its gradient with respect
    # to every equation parameter is exactly zero, also when the batch carries per-sample parameters
    idyn = tnames.index("dyn_loss")
    pbatch = sp.batch(param_batch={"kappa": -rng.uniform(0.4, 1.6, (3, 1))})
    for lab, b_ in (("", batch), ("/param-batch", pbatch)):
        _, jb = (vals_base, jac_base) if lab == "" else guard.call(obs_jit, with_masks(zero_bits), pd, b_)
        blk = blocks(jb, 1 + idyn)
        rec.count("system_dyn_default_checks")
        if not any(float(np.max(np.abs(blk[("nn", n)]))) > 1e-7 for n in names):
            rec.inconcl("system dynamic term has no gradient with respect to the networks")
        for g in ("theta", "phi"):
            if np.any(blk[g] != 0.0):
                rec.violation("system/%s/dyn-term/default-keys/eq-param-gradient-nonzero%s" % (kind, lab),
                              "system dynamic term: d dyn_loss / d %s = %s with the default (network only) specification"
                              % (g, blk[g][:3]))
    for n in names:
        bits = dict(zero_bits)
        for t in TERMS["nonstatio"]:
            for g in GROUPS:
                bits[(n, t, g)] = 1
        v, j = guard.call(obs_jit, with_masks(bits), pd, batch)
        ref[n] = {t: {k: b - base[t][k] for k, b in blocks(j, 1 + i).items()} for i, t in enumerate(tnames)}
    nzmin = min(float(np.max(np.abs(ref[n][t][g]))) for n in names for t in cterms for g in ("theta", "phi"))
    if nzmin < 1e-7:
        rec.inconcl("a per-unknown (term, group) pair of the system has zero gradient")
        return
    for it in range(case["n"]):
        bits = {(n, t, g): int(rng.integers(2)) for n in names for t in TERMS["nonstatio"] for g in GROUPS}
        vals, jac = guard.call(obs_jit, with_masks(bits), pd, batch)
        rec.count("system_assignments_checked")
        rec.count("assignments_checked")
        if not close(np.asarray(vals), np.asarray(vals_base), 1e-12, 1e-14):
            rec.violation("system/%s/loss-value-depends-on-mask" % kind, "system loss values change with the derivative specification")
        tot = blocks(jac, 0)
        for key in list(tot.keys()):
            g = "nn" if isinstance(key, tuple) else key
            exp = base[tnames[0]][key] * 0.0
            for t in tnames:
                exp = exp + base[t][key]
                for n in names:
                    if isinstance(key, tuple) and key[1] != n:
                        continue
                    if t in cterms and bits[(n, t, g)]:
                        exp = exp + ref[n][t][key]
            if not close(tot[key], exp, 1e-9, 1e-11):
                rec.violation("system/%s/total-gradient/%s" % (kind, "network" if g == "nn" else "eq-param"),
                              "system: d total / d %s = %s, expected %s for per-unknown masks" % (key, tot[key][:3], np.asarray(exp)[:3]))
        rec.nontrivial(("system", kind, it))
    # ---- the same through the public constructor: derivative_keys_dict given by the user, different per unknown
    for it in range(4 if case["n"] < 50 else 12):
        bits = {(n, t, g): int(rng.integers(2)) for n in names for t in TERMS["nonstatio"] for g in GROUPS}
        if it == 0:
            for t in TERMS["nonstatio"]:
                for g in GROUPS:
                    bits[(names[0], t, g)], bits[(names[1], t, g)] = 1, 0
        if it == 1:
            for t in TERMS["nonstatio"]:
                for g in GROUPS:
                    bits[(names[0], t, g)], bits[(names[1], t, g)] = 0, 1
        sp.derivative_keys_dict = {n: dk_for(bits, n, as_array=False) for n in names}
        l3 = guard.call(sp.loss)
        vals, jac = guard.call(jax.jit(observe), l3, pd, batch)
        rec.count("system_constructor_assignments")
        rec.count("assignments_checked")
        tot = blocks(jac, 0)
        for key in list(tot.keys()):
            g = "nn" if isinstance(key, tuple) else key
            exp = base[tnames[0]][key] * 0.0
            for t in tnames:
                exp = exp + base[t][key]
                for n in names:
                    if isinstance(key, tuple) and key[1] != n:
                        continue
                    if t in cterms and bits[(n, t, g)]:
                        exp = exp + ref[n][t][key]
            if not close(tot[key], exp, 1e-9, 1e-11):
                rec.violation("system/%s/constructor-keys/total-gradient/%s" % (kind, "network" if g == "nn" else "eq-param"),
                              "system built with a per-unknown derivative_keys_dict: d total / d %s = %s, expected %s"
                              % (key, tot[key][:3], np.asarray(exp)[:3]))
    sp.derivative_keys_dict = None
    rec.set_sample(kind=kind, mode="system", terms=tnames, constraint_terms=cterms, n_assignments=case["n"])
