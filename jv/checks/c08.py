"""C08 - collocation points lie in the declared domain, with declared counts and shapes.

Observe: generator fields after construction and every batch of long get_batch histories
(compiled get_batch, across several reshuffles).  Oracle: interval arithmetic with the
bounds cast to the array dtype; facet structure measured on the border points themselves.
"""
import numpy as np

from .. import gens, guard

PROPERTY = "C08"
LEVEL = "exploration"
RULE = ("cases = generator kind (ODE / stationary d=1..3 / non-stationary d=1..2) x method "
        "(uniform, grid) x domain (6 boxes incl. negative and non-unit) x sizes x keys x dtype "
        "(float32 and float64); 'ctor' cases inspect the stores, 'hist' cases inspect every "
        "batch of a history crossing >= 3 reshuffles of every stream; every case is non-trivial "
        "(a store or batch with >= 1 point); distinct = distinct (kind, method, dim, domain, "
        "sizes, key, dtype) tuples")
ASSUMPTIONS = [
    "bounds are compared in the dtype of the stored arrays (closed box [dtype(min), dtype(max)]); the 1-D end points "
    "in the dtype of the inside points (the process's floating precision)",
    "grid sampling in dimension d is only asked for n = k**d (a regular grid of other sizes is undefined)",
    "declared shapes: times (nt,), omega (n,d), 2-D border (nb/4,2,4), 1-D border the pair (xmin,xmax); "
    "batches as annotated in jinns.data._Batchs",
]
TIMEOUT = {"quick": 1200, "thorough": 3600}
MIN_COUNTERS = {"quick": {"stores_checked": 200, "batches_checked": 150},
                "thorough": {"stores_checked": 2000, "batches_checked": 1200}}

BOXES = gens.DOMAINS_1D


def gen_cases(tier, seed):
    rng = np.random.default_rng(seed + 808)
    cases = []
    q = tier == "quick"
    keys = [seed * 100 + k for k in range(2 if q else 8)]
    # ---- constructor sweeps
    ns_grid = sorted(set(rng.choice(np.arange(1, 201), 36, replace=False).tolist() + [1, 2, 49, 100, 200])) \
        if q else list(range(1, 201))
    for x64 in (True, False):
        for di, box in enumerate(BOXES):
            cases.append(dict(kind="ctor", gen="ode", method="grid", ns=ns_grid, box=box, x64=x64,
                              keys=keys[:1], cost=len(ns_grid) / 30))
            cases.append(dict(kind="ctor", gen="statio", dim=1, method="grid", ns=ns_grid, box=box,
                              x64=x64, keys=keys[:1], cost=len(ns_grid) / 30))
            cases.append(dict(kind="ctor", gen="nonstatio", dim=1, method="grid",
                              ns=ns_grid[:: (3 if q else 1)], box=box, x64=x64, keys=keys[:1],
                              cost=len(ns_grid) / 30))
            for gen, dim in (("ode", 0), ("statio", 1), ("statio", 2), ("statio", 3),
                             ("nonstatio", 1), ("nonstatio", 2)):
                ns = [1, 2, 7, 64] if q else [1, 2, 3, 7, 16, 64, 200]
                cases.append(dict(kind="ctor", gen=gen, dim=dim, method="uniform", ns=ns, box=box,
                                  x64=x64, keys=keys, cost=len(ns) * len(keys) / 8))
        for dim, ns in ((2, [1, 4, 9, 16, 49, 100] if q else [k * k for k in range(1, 15)]),
                        (3, [1, 8, 27, 64, 125] if q else [1, 8, 27, 64, 125, 216, 1000])):
            for box in (BOXES[:2] if q else BOXES):
                cases.append(dict(kind="ctor", gen="statio", dim=dim, method="grid", ns=ns, box=box,
                                  x64=x64, keys=keys[:1], cost=1.0))
    # ---- batch histories
    nh = 32 if q else 160
    for k in range(nh):
        gen = ["ode", "statio", "statio", "nonstatio", "nonstatio"][k % 5]
        dim = [0, 1 + (k // 5) % 3, 2, 1, 2][k % 5]
        box = BOXES[int(rng.integers(len(BOXES)))]
        n = int(rng.integers(2, 14))
        b = int(rng.integers(1, n + 1))
        nt = int(rng.integers(2, 12))
        bt = int(rng.integers(1, nt + 1))
        per = int(rng.integers(2, 8))
        bb = int(rng.integers(1, per + 1))
        if k % 2 and per > 2:
            # the last border batch of an epoch is a clamped (partial) one: per-facet count not a multiple of bb
            nd = [x for x in range(2, per) if per % x]
            if nd:
                bb = int(rng.choice(nd))
        cart = bool(rng.integers(2))
        if gen == "nonstatio" and not cart:
            bt = b
            nt = max(nt, bt)
            if dim == 2:
                bb = b
                per = max(per, bb)
        cases.append(dict(kind="hist", gen=gen, dim=dim, method=["uniform", "grid"][k % 7 == 0 and dim <= 1],
                          n=n, b=b, nt=nt, bt=bt, nb=4 * per, bb=bb if dim in (1, 2) and k % 3 else None,
                          cartesian=cart, box=box, x64=bool(k % 2), key=seed * 1000 + k, cost=1.5))
    for i, c in enumerate(cases):
        c["rev"] = bool((i // 2) % 2)
    return cases


def _box(case, dim):
    lo, hi = case["box"]
    # make the box anisotropic so that axes cannot be confused: bounds increasing with the axis index in half of the
    # cases, decreasing in the other half (xmax < ymax and xmax > ymax, xmin < ymin and xmin > ymin)
    order = list(range(dim))[::-1] if case.get("rev") else list(range(dim))
    mins = [lo + 0.25 * i for i in order]
    maxs = [hi + 0.5 * i for i in order]
    return mins, maxs


def _gen_desc(case, gen, dim, n, key, **kw):
    lo, hi = case["box"]
    d = dict(kind=gen, key=key, method=case.get("method", "uniform"))
    if gen == "ode":
        d.update(nt=n, tmin=lo, tmax=hi, bt=kw.get("bt", 1))
        return d
    mins, maxs = _box(case, dim)
    d.update(n=n, b=kw.get("b", 1), dim=dim, min_pts=mins, max_pts=maxs,
             nb=kw.get("nb"), bb=kw.get("bb"))
    if gen == "nonstatio":
        d.update(nt=kw.get("nt", n), bt=kw.get("bt", 1), tmin=lo - 1.0, tmax=hi + 2.0,
                 cartesian=kw.get("cartesian", True))
    return d


def _in_box(rec, arr, lo, hi, what, sig):
    a = np.asarray(arr)
    l, h = gens.np_dtype_bounds(a, lo, hi)
    rec.count("points_range_checked", a.size)
    if a.size and (np.any(a < l) or np.any(a > h) or np.any(~np.isfinite(a))):
        bad = a[(a < l) | (a > h) | ~np.isfinite(a)]
        rec.violation(sig, "%s outside [%r, %r]: e.g. %r (dtype %s)" % (what, float(l), float(h),
                                                                        float(bad.reshape(-1)[0]), a.dtype),
                      bound_lo=float(l), bound_hi=float(h), bad=bad[:8])
        return False
    return True


def check_border_2d(rec, border, mins, maxs, sigp, where):
    """border: (k, 2, 4) ; facet order xmin, xmax, ymin, ymax measured on the points"""
    a = np.asarray(border)
    pins = [(0, mins[0]), (0, maxs[0]), (1, mins[1]), (1, maxs[1])]
    names = ["xmin", "xmax", "ymin", "ymax"]
    for f, (ax, val) in enumerate(pins):
        pts = a[:, :, f]
        v = np.asarray(val, dtype=a.dtype)
        rec.count("facet_points_checked", pts.shape[0])
        if not np.all(pts[:, ax] == v):
            rec.violation(sigp + "/facet-not-pinned",
                          "%s: facet %d (%s) is not pinned to %s=%r: %r" % (where, f, names[f], "xy"[ax],
                                                                         float(v), pts[:3].tolist()),
                          facet=f)
        fr = 1 - ax
        _in_box(rec, pts[:, fr], mins[fr], maxs[fr], "%s facet %s free coordinate" % (where, names[f]),
                sigp + "/facet-free-range")


def run_case(case, rec):
    if case["kind"] == "ctor":
        return run_ctor(case, rec)
    return run_hist(case, rec)


def run_ctor(case, rec):
    gen, method = case["gen"], case["method"]
    dim = case.get("dim", 0)
    for n in case["ns"]:
        for key in case["keys"]:
            kw = {}
            if gen != "ode" and dim in (1, 2):
                kw.update(nb=4 * max(1, n // 4 or 1), bb=1)
            if gen == "nonstatio":
                # as many, fewer and more time points than space points
                kw["nt"] = [n, max(1, n - 1 - n % 3), n + 2 + n % 3][n % 3]
            d = _gen_desc(case, gen, dim, n, key, **kw)
            if method == "uniform" and n >= 2 and (key + n) % 2 == 1:
                # configured for residual-adaptive refinement: the first n_start points are active, the others are
                # pre-allocated - all of them are stored points of the declared domain
                d["rar"] = dict(start_iter=10 ** 6, update_every=3)
                if gen != "ode":
                    d["rar"].update(sample_size_omega=4, selected_sample_size_omega=1)
                if gen != "statio":
                    d["rar"].update(sample_size_times=4, selected_sample_size_times=1)
                d["n_start"] = max(1, n // 2)
                d["nt_start"] = max(1, d.get("nt", n) // 2)
                rec.count("stores_of_refinement_enabled_generators")
            sigp = "%s/%s%s" % (method, gen, ("/dim%d" % dim) if gen != "ode" else "")
            try:
                g = guard.call(gens.make_generator, d)
            except guard.Unsupported as u:
                rec.unsupp("%s: %s" % (sigp, u.reason))
                continue
            except guard.Crash as c:
                rec.violation(sigp + "/ctor-crash", "constructor crashed for n=%d: %s" % (n, c), desc=d)
                continue
            rec.count("stores_checked")
            rec.nontrivial((gen, method, dim, tuple(case["box"]), n, key, case["x64"]))
            lo, hi = case["box"]
            if gen == "ode":
                t = np.asarray(g.times)
                if t.shape != (n,):
                    rec.violation(sigp + "/count", "nt=%d requested, times has shape %s on [%g,%g] dtype %s"
                                  % (n, t.shape, lo, hi, t.dtype), n=n, box=case["box"])
                _in_box(rec, t, lo, hi, "times (n=%d)" % n, sigp + "/range")
                rec.set_sample(gen=gen, method=method, n=n, box=case["box"], times_head=t[:5])
                continue
            mins, maxs = _box(case, dim)
            om = np.asarray(g.omega)
            if om.shape != (n, dim):
                rec.violation(sigp + "/count", "n=%d requested, omega has shape %s (box %s, dtype %s)"
                              % (n, om.shape, case["box"], om.dtype), n=n, box=case["box"])
            for ax in range(min(dim, om.shape[-1] if om.ndim == 2 else 0)):
                _in_box(rec, om[:, ax], mins[ax], maxs[ax], "omega axis %d (n=%d)" % (ax, n), sigp + "/range")
            if method == "grid" and om.ndim == 2 and om.shape[0] > 1:
                if len({gens.rowkey(r) for r in om}) != om.shape[0]:
                    rec.violation(sigp + "/grid-duplicates", "grid store holds duplicate points", n=n)
            if gen == "nonstatio":
                t = np.asarray(g.times)
                if t.shape != (d["nt"],):
                    rec.violation(sigp + "/count-times", "nt=%d requested, times has shape %s" % (d["nt"], t.shape),
                                  n=n, box=case["box"])
                _in_box(rec, t, d["tmin"], d["tmax"], "times", sigp + "/range-times")
            if kw.get("bb") is not None:
                ob = g.omega_border
                if dim == 1:
                    a = np.asarray(ob)
                    # the end points as the process's floating precision represents them (the dtype of the inside
                    # points), not as whatever dtype the border happens to be stored in
                    exp = np.array([mins[0], maxs[0]], dtype=np.asarray(g.omega).dtype).astype(np.float64)
                    if a.shape != (2,) or not np.array_equal(a.astype(np.float64), exp):
                        rec.violation(sigp + "/border1d", "1-D border store is %r, expected the pair %r"
                                      % (a.tolist(), exp.tolist()))
                    rec.count("facet_points_checked", 2)
                elif dim == 2:
                    a = np.asarray(ob)
                    per = kw["nb"] // 4
                    if a.shape != (per, 2, 4):
                        rec.violation(sigp + "/border-count", "nb=%d requested, border store has shape %s"
                                      % (kw["nb"], a.shape))
                    else:
                        check_border_2d(rec, a, mins, maxs, sigp, "store")
                        if per >= 2:
                            for f, fr in enumerate([1, 1, 0, 0]):
                                if np.ptp(a[:, fr, f]) == 0:
                                    rec.violation(sigp + "/facet-constant",
                                                  "facet %d does not vary along its free coordinate" % f)
            if method == "uniform":
                # the public samplers with an explicit number of points (what a refinement step asks for): exactly that
                # many points of the domain, whatever n is
                import jax
                for m in sorted({max(1, n - 1), n + 3}):
                    kk = jax.random.PRNGKey(key + m)
                    try:
                        pts = np.asarray(guard.call(g.sample_in_omega_domain, kk if dim == 1 else jax.random.split(kk, dim), m))
                    except guard.Unsupported as u:
                        rec.unsupp("%s sampler: %s" % (sigp, u.reason))
                        break
                    rec.count("explicit_size_sampler_calls")
                    if pts.shape != (m, dim):
                        rec.violation(sigp + "/sampler-count", "sample_in_omega_domain asked for %d points in dimension %d, "
                                      "returned shape %s (n=%d)" % (m, dim, pts.shape, n))
                        continue
                    for ax in range(dim):
                        _in_box(rec, pts[:, ax], mins[ax], maxs[ax], "sampled points axis %d" % ax, sigp + "/sampler-range")
                    if gen == "nonstatio":
                        ts = np.asarray(guard.call(g.sample_in_time_domain, kk, m))
                        if ts.shape != (m,):
                            rec.violation(sigp + "/sampler-count-times", "sample_in_time_domain asked for %d, returned shape %s"
                                          % (m, ts.shape))
                        else:
                            _in_box(rec, ts, d["tmin"], d["tmax"], "sampled times", sigp + "/sampler-range-times")
            rec.set_sample(gen=gen, method=method, dim=dim, n=n, box=case["box"], omega_head=om[:3])


def run_hist(case, rec):
    import jax

    gen, dim = case["gen"], case["dim"]
    d = _gen_desc(case, gen, dim, case["n"] if gen != "ode" else case["nt"], case["key"],
                  b=case["b"], bt=case["bt"], nt=case["nt"], nb=case["nb"] if case["bb"] else None,
                  bb=case["bb"], cartesian=case["cartesian"])
    if gen == "ode":
        d["bt"] = case["bt"]
    if d.get("method") == "grid" and gen != "ode" and dim > 1:
        d["method"] = "uniform"
    sigp = "hist/%s%s" % (gen, ("/dim%d" % dim) if gen != "ode" else "")
    try:
        g = guard.call(gens.make_generator, d)
    except guard.Unsupported as u:
        rec.unsupp("%s: %s" % (sigp, u.reason))
        return
    step = jax.jit(lambda gg: gg.get_batch())
    lo, hi = case["box"]
    # number of draws: >= 3 epochs of the slowest stream
    if gen == "ode":
        epochs = [-(-case["nt"] // case["bt"])]
    else:
        epochs = [-(-case["n"] // case["b"])]
        if gen == "nonstatio":
            epochs.append(-(-case["nt"] // case["bt"]))
        if case["bb"] and dim == 2:
            epochs.append(-(-(case["nb"] // 4) // case["bb"]))
    ndraw = 3 * max(epochs) + 2
    rec.nontrivial((gen, dim, case["method"], tuple(case["box"]), case["n"], case["b"], case["nt"],
                    case["bt"], case["nb"], case["bb"], case["cartesian"], case["x64"], case["key"]))
    mins, maxs = (_box(case, dim) if gen != "ode" else (None, None))
    for k in range(ndraw):
        g, batch = guard.call(step, g)
        rec.count("batches_checked")
        if gen == "ode":
            tb = np.asarray(batch.temporal_batch)
            if tb.shape != (case["bt"],):
                rec.violation(sigp + "/batch-shape", "temporal batch shape %s, declared (%d,)" % (tb.shape, case["bt"]))
            _in_box(rec, tb, lo, hi, "temporal batch", sigp + "/batch-range")
            rec.set_sample(gen=gen, draw=k, batch=tb)
            continue
        if gen == "statio":
            ib = np.asarray(batch.inside_batch)
            bbatch = batch.border_batch
            exp_in = (case["b"], dim)
            tcol = None
        else:
            tx = np.asarray(batch.times_x_inside_batch)
            rows = case["bt"] * case["b"] if case["cartesian"] else case["b"]
            if tx.shape != (rows, 1 + dim):
                rec.violation(sigp + "/batch-shape", "times_x_inside_batch shape %s, declared %s"
                              % (tx.shape, (rows, 1 + dim)), cartesian=case["cartesian"])
                continue
            tcol, ib = tx[:, 0], tx[:, 1:]
            _in_box(rec, tcol, d["tmin"], d["tmax"], "time column", sigp + "/batch-range-time")
            bbatch = batch.times_x_border_batch
            exp_in = (rows, dim)
        if ib.shape != exp_in:
            rec.violation(sigp + "/batch-shape", "inside batch shape %s, declared %s" % (ib.shape, exp_in))
            continue
        for ax in range(dim):
            _in_box(rec, ib[:, ax], mins[ax], maxs[ax], "inside batch axis %d" % ax, sigp + "/batch-range")
        if case["bb"] is None:
            if bbatch is not None:
                rec.violation(sigp + "/border-not-none", "border batch returned although none was requested")
            continue
        bbn = np.asarray(bbatch)
        if gen == "statio":
            exp_b = (1, 1, 2) if dim == 1 else (case["bb"], 2, 4)
            sp = bbn
        else:
            if dim == 1:
                exp_b = (case["bt"], 2, 2)
            else:
                exp_b = ((case["bt"] * case["bb"]) if case["cartesian"] else case["bb"], 3, 4)
            if bbn.shape == exp_b:
                _in_box(rec, bbn[:, 0, :], d["tmin"], d["tmax"], "border time column", sigp + "/batch-range-time")
            sp = bbn[:, 1:, :] if bbn.ndim == 3 else bbn
        if bbn.shape != exp_b:
            rec.violation(sigp + "/border-batch-shape", "border batch shape %s, declared %s" % (bbn.shape, exp_b))
            continue
        if dim == 1:
            a = sp.reshape(-1, 2).astype(np.float64)
            exp = np.array([mins[0], maxs[0]], dtype=ib.dtype).astype(np.float64)
            if not np.all(a == exp[None, :]):
                rec.violation(sigp + "/border1d", "1-D border batch %r is not the pair (xmin, xmax) %r"
                              % (a[:2].tolist(), exp.tolist()))
            rec.count("facet_points_checked", a.size)
        else:
            check_border_2d(rec, sp, mins, maxs, sigp, "batch %d" % k)
        rec.set_sample(gen=gen, dim=dim, draw=k, inside_head=ib[:2], border_shape=list(bbn.shape))
