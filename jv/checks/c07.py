"""C07 - solve() is observationally the textbook mini-batch training loop.

Observe: the 9-tuple returned by the real jinns.solve (compiled lax.while_loop).
Oracle: refloop.ref_loop (plain Python, one real call at a time) run on the same program.
"""
import numpy as np

from .. import guard, programs, refloop

PROPERTY = "C07"
LEVEL = "exploration"
RULE = ("programs = loss kind (ODE / stationary 2-D with border / non-stationary 1-D cartesian / 2-equation ODE "
        "system) x optimizer (sgd, adam, chain(clip, adam(schedule))) x (n, batch) with b | n and b !| n, iteration "
        "counts crossing >= 2 epoch boundaries x auxiliary generators {none, parameter, observation, both} x "
        "tracked spec (none / equation parameter / network leaf) x resumed (solve(n1) then solve(n2) with the "
        "returned parameters, optimizer state and generator) x verbosity (silent / the default printing path) x a never-stopping validation module; non-trivial = a reshuffle happened inside the run "
        "and the loss history is not constant; distinct = distinct program descriptions")
ASSUMPTIONS = [
    "the number p of batches solve() consumes before iteration 0 is not fixed by the statement: inferred in {0,1} from the "
    "first program of a worker and required to be the same for every later program and for resumed runs",
    "float64 (and a sixth of the programs in JAX's default 32-bit mode at rtol 5e-3 / atol 5e-5); histories / parameters / optimizer state compared at rtol 1e-6, atol 1e-9 (optax schedules evaluate the "
    "learning rate in float32, which differs by an ulp between compiled and step-by-step execution); generator state exact",
    "the non-compiled branch of solve is exercised with a SingleDeviceSharding of the only (CPU) device",
]
TIMEOUT = {"quick": 1800, "thorough": 7200}
MIN_COUNTERS = {"quick": {"programs_compared": 24, "iterations_compared": 200, "programs_with_reshuffle": 15,
                          "programs_with_tracked_gradient": 6, "resumed_programs": 4, "programs_with_default_verbosity": 6, "programs_in_32bit_mode": 3, "programs_with_validation_module": 5},
                "thorough": {"programs_compared": 200, "iterations_compared": 1500, "programs_with_reshuffle": 120,
                             "programs_with_tracked_gradient": 50, "resumed_programs": 40, "programs_with_default_verbosity": 50, "programs_in_32bit_mode": 25, "programs_with_validation_module": 40}}


def gen_cases(tier, seed):
    rng = np.random.default_rng(seed + 707)
    q = tier == "quick"
    cases = []
    kinds = ["ode", "statio2", "nonstatio1", "sys_ode", "spinn1", "hyper"]
    opts = ["sgd", "adam", "chain"]
    auxs = ["none", "param", "obs", "both"]
    trk = ["none", "theta", "nn_leaf"]
    N = 32 if q else 260
    for k in range(N):
        kind = kinds[k % 4] if k % 8 < 6 else kinds[4 + k % 2]
        b = int(rng.integers(1, 5))
        n = b * int(rng.integers(2, 4)) if k % 2 == 0 else b * int(rng.integers(2, 4)) + int(rng.integers(1, b + 1)) % max(b, 1)
        n = max(n, b + 1)
        prog = dict(kind=kind, n=n, b=b, aux=auxs[(k // 4) % 4], opt=opts[(k // 2) % 3], tracked=trk[(k // 3) % 3],
                    seed=seed * 100000 + k, resumed=(k % 5 == 4))
        epoch = -(-n // b)
        if kind == "nonstatio1":
            bt = int(rng.integers(1, 4))
            prog.update(nt=bt * 2 + int(rng.integers(0, 2)), bt=bt)
        if kind == "sys_ode" and prog["aux"] in ("param", "both"):
            prog["aux"] = "obs" if prog["aux"] == "both" else "none"
        if kind == "sys_ode" and prog["tracked"] == "nn_leaf":
            prog["tracked"] = "theta"
        if kind in ("spinn1", "hyper"):
            prog["aux"] = "none"  # the hyper program brings its own parameter generator
            prog["tracked"] = "theta" if prog["tracked"] != "none" else "none"
            prog["b"] = max(prog["b"], 2)
            prog["n"] = max(prog["n"], prog["b"] + 1)
        prog["n_iter"] = 2 * epoch + int(rng.integers(1, 4))
        # the non-compiled branch of solve (Python while loop) is taken when an observation-batch sharding is given
        prog["sharding"] = bool(prog["aux"] in ("obs", "both") and k % 3 == 0)
        prog["inf_placeholder"] = bool(kind in ("ode", "statio2", "nonstatio1") and k % 5 == 2)
        # solve's default is verbose=True (loss printed every print_loss_every iterations from inside the loop)
        prog["verbose"] = bool(k % 3 == 1)
        # a validation module that never asks to stop must not change anything else (schedule/criterion itself: C19)
        prog["validation"] = bool(k % 4 == 3)
        cases.append(dict(prog=prog, cost=2.0 + (1.0 if prog["resumed"] else 0.0), x64=bool(k % 6 != 5)))
    return cases


_PRIME = {}
# optax schedules compute the learning rate in float32 (count -> float32 power): compiled and op-by-op
# execution differ there by ~1e-7 relative, i.e. ~1e-9 on the parameters; orchestration errors are >= 1e-4
RT, AT = 1e-6, 1e-9
if __import__("os").environ.get("JV_X64", "1") == "0":
    # JAX's default 32-bit mode (what users run): compiled and step-by-step execution differ by float32 rounding
    # that accumulates over the iterations; these cases are there for what only breaks in 32-bit mode (integer
    # cursors, dtype of loop carries), the fine orchestration comparisons are made by the 64-bit cases
    RT, AT = 5e-3, 5e-5


def compare(rec, out, ref, n, sig, label, tight=False):
    """out: 9-tuple of solve; ref: dict of ref_loop"""
    ok_all = True

    def bad(what, msg, **w):
        nonlocal ok_all
        ok_all = False
        rec.violation("%s/%s" % (sig, what), "%s: %s" % (label, msg), **w)

    params, hist, terms, data, loss_out, opt_state, stored, crit, best = out
    h = np.asarray(hist)
    if h.shape != (n,):
        bad("history-shape", "loss history has shape %s for n_iter=%d" % (h.shape, n))
        return False
    # the histories record the loss values: same floating-point type as the values the loss returns in this mode
    want = np.dtype("float64" if __import__("os").environ.get("JV_X64", "1") != "0" else "float32")
    for nm_, arr_ in [("total", hist)] + [(k_, v_) for k_, v_ in terms.items()]:
        if np.asarray(arr_).dtype != want:
            bad("history-dtype", "history of %s has dtype %s, the loss values are %s" % (nm_, np.asarray(arr_).dtype, want))
            break
    if tight and not np.allclose(h, ref["hist"], rtol=1e-10, atol=1e-13):
        j = int(np.argmax(np.abs(h - ref["hist"]) > 1e-13 + 1e-10 * np.abs(ref["hist"])))
        bad("loss-history/rounded", "loss history differs from the reference loop beyond rounding (no float32 schedule in "
            "this program) first at iteration %d: %r vs %r" % (j, h[j], ref["hist"][j]))
    if not np.allclose(h, ref["hist"], rtol=RT, atol=AT):
        j = int(np.argmax(np.abs(h - ref["hist"]) > AT + RT * np.abs(ref["hist"])))
        # attribute: shifted by one? batch reused?
        shift = ""
        if n > 2 and np.allclose(h[1:], ref["hist"][:-1], rtol=RT, atol=AT):
            shift = "/entry-i-holds-iteration-i-1"
        elif n > 2 and np.allclose(h[:-1], ref["hist"][1:], rtol=RT, atol=AT):
            shift = "/entry-i-holds-iteration-i+1"
        bad("loss-history" + shift, "loss history differs from the reference loop first at iteration %d: %r vs %r"
            % (j, h[j], ref["hist"][j]), solve=h, reference=ref["hist"])
    for k, v in ref["hist_terms"].items():
        if k not in terms or not np.allclose(np.asarray(terms[k]), v, rtol=RT, atol=AT):
            bad("term-history", "history of term %s differs from the reference loop" % k)
            break
    ok, d = refloop.tree_close(params, ref["params"], RT, AT)
    if not ok:
        ok2, _ = refloop.tree_close(params, ref["final_params"], RT, AT)
        bad("final-params", "returned parameters differ from the reference loop (%s)" % d)
    ok, d = refloop.tree_close(opt_state, ref["opt_state"], RT, AT)
    if not ok:
        bad("optimizer-state", "returned optimizer state is not the live one of the reference loop (%s)" % d)
    ok, d = refloop.tree_close(data, ref["data"], 0, 0)
    if not ok:
        bad("generator-state", "returned data generator differs from the one advanced by the reference loop (%s)" % d)
    if ref["tracked"] is not None:
        ok, d = refloop.tree_close(stored, ref["tracked"], RT, AT)
        if not ok:
            # before/after the update?
            bad("tracked-params", "tracked-parameter history differs from 'value after the update of iteration i' (%s)" % d)
    else:
        import jax
        if len(jax.tree_util.tree_leaves(stored)) != 0:
            bad("tracked-params-not-empty", "nothing was tracked but stored_params holds arrays")
    if ref.get("crit") is None:
        if crit is not None or best is not None:
            bad("validation-outputs-without-validation", "validation outputs returned although no validation module was given")
    else:
        if crit is None or not np.allclose(np.asarray(crit), ref["crit"], rtol=RT, atol=AT):
            bad("validation-criterion-history", "criterion history %s differs from the reference %s" % (crit, ref["crit"]))
    return ok_all


def run_case(case, rec):
    import jax
    import jinns

    prog = case["prog"]
    rng = np.random.default_rng([prog["seed"], 7])
    jax.clear_caches()
    P = guard.call(programs.build_program, prog, rng)
    opt = programs.make_optimizer(prog["opt"])
    tracked = programs.tracked_spec(P["params"], prog["tracked"])
    n = prog["n_iter"]
    sig = "solve/%s" % prog["kind"]
    label = "%s opt=%s aux=%s n=%d b=%d iters=%d tracked=%s" % (prog["kind"], prog["opt"], prog["aux"], prog["n"],
                                                                 prog["b"], n, prog["tracked"])

    if not case.get("x64", True):
        rec.count("programs_in_32bit_mode")
    shard = jax.sharding.SingleDeviceSharding(jax.devices()[0]) if prog.get("sharding") else None
    if shard is not None:
        rec.count("programs_non_compiled_branch")

    verb = dict(print_loss_every=2) if prog.get("verbose") else dict(verbose=False)
    if prog.get("verbose"):
        rec.count("programs_with_default_verbosity")

    val = None
    if prog.get("validation"):
        import jax.numpy as jnp
        from .c19 import scripted_cls
        K = 64
        val = scripted_cls()(stops=jnp.zeros(K, bool), crits=jnp.asarray(3.0 + 0.5 * np.arange(K)), improves=jnp.asarray(np.arange(K) % 3 != 1),
                             k=jnp.asarray(0), call_every=2)  # improvements are flagged, a stop is never requested
        rec.count("programs_with_validation_module")

    def run_solve(n_it, params, data, pdata, odata, opt_state):
        return guard.call_supported(jinns.solve, n_iter=n_it, init_params=params, data=data, loss=P["loss"], optimizer=opt,
                          opt_state=opt_state, tracked_params=tracked, param_data=pdata, obs_data=odata,
                          obs_batch_sharding=shard, **verb, **({"validation": val} if val is not None else {}))

    vgc = {}
    out = run_solve(n, P["params"], P["data"], P["param_data"], P["obs_data"], None)
    rec.count("solve_calls")
    primes = [_PRIME["p"]] if "p" in _PRIME else [1, 0]
    ref = None
    for p in primes:
        r = refloop.ref_loop(n, P["params"], P["data"], P["loss"], opt, param_data=P["param_data"], obs_data=P["obs_data"],
                             tracked=tracked, prime=p, vg_cache=vgc, validation=val)
        if np.allclose(np.asarray(out[1]), r["hist"], rtol=RT, atol=AT) or ref is None:
            if ref is None or np.allclose(np.asarray(out[1]), r["hist"], rtol=RT, atol=AT):
                ref = r
                pbest = p
        if np.allclose(np.asarray(out[1]), r["hist"], rtol=RT, atol=AT):
            break
    if "p" not in _PRIME and np.allclose(np.asarray(out[1]), ref["hist"], rtol=RT, atol=AT):
        _PRIME["p"] = pbest
    rec.count("prime_%d" % pbest)
    # without a learning-rate schedule nothing is computed in float32 in 64-bit mode: histories agree to rounding
    tight = prog["opt"] in ("sgd", "adam") and case.get("x64", True) and prog["kind"] not in ("spinn1", "hyper")
    ok = compare(rec, out, ref, n, sig, label, tight=tight)
    rec.count("programs_compared")
    rec.count("iterations_compared", n)
    if int(ref["n_done"]) != n:
        rec.violation(sig + "/reference-stopped-early", "reference loop stopped after %d of %d iterations" % (ref["n_done"], n))
    # non-vacuity
    epoch = -(-prog["n"] // prog["b"])
    if n > epoch:
        rec.count("programs_with_reshuffle")
    if prog["tracked"] != "none" and ref["tracked"] is not None:
        tl = refloop.leaves(ref["tracked"])
        if tl and float(np.max(np.abs(tl[0][-1] - tl[0][0]))) > 1e-9:
            rec.count("programs_with_tracked_gradient")
    if n > epoch and float(np.ptp(ref["hist"])) > 1e-9:
        rec.nontrivial(tuple(sorted((k, str(v)) for k, v in prog.items())))
    rec.set_sample(program=prog, prime=pbest, loss_history_solve=np.asarray(out[1])[:6], loss_history_reference=ref["hist"][:6])
    # ------------------------------------------------------------------ resumed run
    if prog["resumed"] and ok:
        n2 = max(2, n // 2)
        # the auxiliary generators are not returned by solve: a resumed program passes fresh references to its own
        # (unadvanced) objects, exactly what a user holding only the 9-tuple can do
        out2 = run_solve(n2, out[0], out[3], P["param_data"], P["obs_data"], out[5])
        ref2 = refloop.ref_loop(n2, ref["params"], ref["data"], P["loss"], opt, opt_state=ref["opt_state"],
                                param_data=P["param_data"], obs_data=P["obs_data"], tracked=tracked, prime=pbest, vg_cache=vgc,
                                validation=val)
        rec.count("resumed_programs")
        rec.count("iterations_compared", n2)
        compare(rec, out2, ref2, n2, sig + "/resumed", label + " resumed +%d" % n2, tight=tight)
