"""C12 - per-sample equation parameters and heterogeneous parameters are aligned.

Observe: all terms of the real ODE / stationary / non-stationary losses on batches built
with the real append_param_batch (and observed eq_params); the value the user equation
computes from the parameters it receives.  Oracle: (1) Python loop - for sample i build
Params with row i substituted, evaluate the *unbatched* real loss on that single sample,
average; (2) numpy formulas.  The network consumes one parameter through its input
transform (phi), the equation another (theta), a third (kappa) is only passed through, so
network input, equation and derivative routing are all exercised.
"""
import itertools

import numpy as np

from .. import fields, guard, nets
from ..core import close

PROPERTY = "C12"
LEVEL = "exploration"
RULE = ("cases = loss kind (ODE, stationary, non-stationary, 2-unknown systems) x every non-empty subset of the "
        "3 equation parameters batched x optional parts x batch size 1..6; heterogeneity maps none/one/all keys, "
        "missing keys, None entries, with and without a parameter batch; non-trivial = the term changes by > 1e-6 "
        "when the batch rows are replaced by their mean (i.e. alignment is observable); distinct = "
        "distinct configuration tuples")
ASSUMPTIONS = [
    "batched parameters have shape (B,1); boundary / observation / normalisation inputs have B rows too (row i meets row i)",
    "normalisation under a parameter batch: w*(V*mean_j u(x_j; row j) - 1)^2",
    "heterogeneity function h(point, u, params) = a + b.z + c*kappa; it replaces the parameter inside the equation only",
]
TIMEOUT = {"quick": 1800, "thorough": 5400}
MIN_COUNTERS = {"quick": {"terms_compared": 200, "grad_comparisons": 40, "hetero_cases": 25, "system_cases": 8, "hyper_cases": 8, "neumann_boundary_terms_with_parameter_batch": 8},
                "thorough": {"terms_compared": 3000, "grad_comparisons": 500, "hetero_cases": 300, "system_cases": 100, "hyper_cases": 80, "neumann_boundary_terms_with_parameter_batch": 40}}
KEYS = ["theta", "phi", "kappa"]
EQ0 = {"theta": 0.8, "phi": 0.3, "kappa": -0.6}


def gen_cases(tier, seed):
    rng = np.random.default_rng(seed + 1212)
    q = tier == "quick"
    cases = []
    subsets = [list(s) for r in (1, 2, 3) for s in itertools.combinations(KEYS, r)]
    kinds = ["ode", "statio", "nonstatio"]
    for k in range(60 if q else 800):
        kind = kinds[k % 3]
        avail = {"ode": ["ic", "obs"], "statio": ["boundary", "norm", "obs"],
                 "nonstatio": ["ic", "boundary", "norm", "obs"]}[kind]
        parts = [p for p in avail if rng.integers(2)]
        cases.append(dict(mode="batch", kind=kind, d=0 if kind == "ode" else int(rng.integers(1, 3)),
                          batched=subsets[k % len(subsets)], parts=parts, B=int(rng.integers(1, 7)),
                          n_out=int(rng.integers(1, 3)), ncomp=int(rng.integers(1, 3)),
                          observed=bool(rng.integers(3) == 0), seed=seed * 100000 + k, cost=2.0))
        if "boundary" in parts and (k // 3) % 2 == 0:
            # the Neumann twin of the boundary term: the normal derivative of sample i uses row i of the batch
            cases[-1]["bc"] = "neumann"
    # forced, not left to luck: Neumann boundary terms of both PDE kinds in 1-D and 2-D, several samples, and the key
    # the network itself reads ("phi", through its input transform) in the batch
    for k in range(4 if q else 40):
        kind = ["statio", "nonstatio"][k % 2]
        cases.append(dict(mode="batch", kind=kind, d=1 + (k // 2) % 2, batched=[["phi"], ["theta", "phi"], ["phi", "kappa"]][k % 3],
                          parts=["boundary"] + (["ic"] if kind == "nonstatio" and k % 4 == 3 else []), B=int(rng.integers(3, 7)),
                          n_out=1, ncomp=int(rng.integers(1, 3)), observed=False, bc="neumann",
                          seed=seed * 100000 + 40000 + k, cost=2.0))
    hmaps = ["none", "theta", "all", "missing", "none_entries"]
    for k in range(30 if q else 400):
        kind = kinds[k % 3]
        cases.append(dict(mode="hetero", kind=kind, d=0 if kind == "ode" else int(rng.integers(1, 3)),
                          hmap=hmaps[k % len(hmaps)], pbatch=bool((k // 5) % 2), B=int(rng.integers(1, 6)),
                          n_out=int(rng.integers(1, 3)), ncomp=int(rng.integers(1, 3)),
                          seed=seed * 100000 + 50000 + k, cost=1.5))
    for k in range(12 if q else 120):
        kind = kinds[k % 3]
        cases.append(dict(mode="hyper", kind=kind, d=0 if kind == "ode" else int(rng.integers(1, 3)),
                          batched=subsets[(k * 5 + 1) % len(subsets)], B=int(rng.integers(2, 6)),
                          seed=seed * 100000 + 90000 + k, cost=2.5))
    for k in range(12 if q else 150):
        cases.append(dict(mode="system", kind=["ode", "statio", "nonstatio"][k % 3],
                          d=0 if k % 3 == 0 else 1 + (k // 3) % 2, B=int(rng.integers(1, 5)),
                          batched=subsets[k % len(subsets)], seed=seed * 100000 + 80000 + k, cost=2.0))
    return cases


class Problem:
    """one network + user equation + optional parts, for a given kind; builds the real loss
    and the numpy expectation of every term for per-row parameter values."""

    def __init__(self, case, rng, parts, reads=("phi",)):
        import jax.numpy as jnp

        from .. import eqs

        self.case, self.kind, self.d = case, case["kind"], case["d"]
        kind, d = self.kind, self.d
        self.D = {"ode": 1, "statio": d, "nonstatio": d + 1}[kind]
        self.eqt = {"ode": "ODE", "statio": "statio_PDE", "nonstatio": "nonstatio_PDE"}[kind]
        if "norm" in parts:
            case = dict(case, n_out=1)  # the normalisation term is defined for scalar u
            self.case = case
        self.bc = case.get("bc", "dirichlet")
        if self.bc == "neumann" and "boundary" in parts:
            case = dict(case, n_out=1)  # the normal derivative is taken of a scalar u
            self.case = case
        self.net = nets.Net(fields.TrigField(case["seed"], self.D, case["n_out"]), self.eqt, reads=reads)
        self.spec = eqs.ResidSpec(case["seed"], case["ncomp"], case["n_out"], self.D)
        self.parts = parts
        self.rng = rng
        self.w = {"dyn": 1.3, "ic": 0.9, "boundary": 0.7, "norm": 1.1, "obs": 1.7}
        n_out = case["n_out"]
        self.u0 = rng.uniform(-1, 1, n_out)
        self.t0 = 0.25
        self.fb = 0.3
        self.V = 2.5
        self.jnp = jnp

    def loss(self, hetero=None, dk="both", Tmax=None):
        import jinns
        from jinns.parameters import Params

        jnp = self.jnp
        kind, parts = self.kind, self.parts
        mkw = {"eq_params_heterogeneity": hetero} if hetero is not None else {}
        if Tmax is not None:
            mkw["Tmax"] = Tmax  # the harness equations do not use Tmax: it must not leak into anything
        dyn = self.spec.module(kind, **mkw)
        eqd = dict(EQ0)
        eqd.update(self.case.get("extra_eq", {}))
        params = Params(nn_params=self.net.nn_params(), eq_params={k: jnp.asarray(v) for k, v in eqd.items()})
        self.params = params
        u = self.net.pinn()
        kw = {}
        if kind == "ode":
            lw = dict(dyn_loss=self.w["dyn"], initial_condition=self.w["ic"], observations=self.w["obs"])
            if "ic" in parts:
                kw["initial_condition"] = (self.t0, jnp.asarray(self.u0))
            dkeys = jinns.parameters.DerivativeKeysODE.from_str(params, dyn_loss=dk, initial_condition=dk, observations=dk)
            return jinns.loss.LossODE(u=u, dynamic_loss=dyn, loss_weights=jinns.loss.LossWeightsODE(**lw),
                                      derivative_keys=dkeys, params=params, **kw)
        lw = dict(dyn_loss=self.w["dyn"], boundary_loss=self.w["boundary"], norm_loss=self.w["norm"],
                  observations=self.w["obs"])
        if "boundary" in parts:
            kw["omega_boundary_fun"] = (lambda dx: self.fb) if kind == "statio" else (lambda t, dx: self.fb)
            kw["omega_boundary_condition"] = self.bc
        if "norm" in parts:
            kw["norm_samples"] = jnp.asarray(self.norm_samples)
            kw["norm_int_length"] = self.V
        if kind == "statio":
            dkeys = jinns.parameters.DerivativeKeysPDEStatio.from_str(params, dyn_loss=dk, boundary_loss=dk,
                                                                       norm_loss=dk, observations=dk)
            return jinns.loss.LossPDEStatio(u=u, dynamic_loss=dyn, loss_weights=jinns.loss.LossWeightsPDEStatio(**lw),
                                            derivative_keys=dkeys, params=params, **kw)
        lw["initial_condition"] = self.w["ic"]
        if "ic" in parts:
            c0 = jnp.asarray(self.u0)
            kw["initial_condition_fun"] = lambda x: c0 + 0.0 * jnp.sum(x)
        dkeys = jinns.parameters.DerivativeKeysPDENonStatio.from_str(params, dyn_loss=dk, boundary_loss=dk, norm_loss=dk,
                                                                      observations=dk, initial_condition=dk)
        return jinns.loss.LossPDENonStatio(u=u, dynamic_loss=dyn, loss_weights=jinns.loss.LossWeightsPDENonStatio(**lw),
                                           derivative_keys=dkeys, params=params, **kw)

    def make_data(self, B):
        rng, kind, d, D = self.rng, self.kind, self.d, self.D
        self.B = B
        self.pts = rng.uniform(0, 1, (B, 1)) if kind == "ode" else rng.uniform(-1, 2, (B, D))
        self.norm_samples = rng.uniform(-1, 2, (B, max(d, 1)))
        if kind != "ode":
            nf = 2 * d
            cols = []
            for f in range(nf):
                p = rng.uniform(-1, 2, (B, d))
                p[:, f // 2] = [-1.0, 2.0][f % 2]
                cols.append(p)
            sp = np.stack(cols, -1)
            if kind == "nonstatio":
                sp = np.concatenate([np.repeat(rng.uniform(0, 1, (B, 1, 1)), nf, axis=2), sp], axis=1)
            self.border = sp
        self.obs_in = rng.uniform(-1, 2, (B, D))
        self.obs_val = rng.uniform(-1, 1, (B, self.case["n_out"]))

    def batch(self, rows=None, param_batch=None, obs_eq=None, direct=False):
        """direct=True: the batch object is built with its public constructor and the parameter batch is given as a
        plain dict in reverse-sorted key insertion order (append_param_batch / jit would re-sort the keys)"""
        import jinns

        jnp = self.jnp
        if direct and param_batch:
            plain = self.batch(rows=rows, param_batch=None, obs_eq=obs_eq)
            sl_ = slice(None) if rows is None else rows
            d_ = {k: jnp.asarray(param_batch[k][sl_]) for k in sorted(param_batch, reverse=True)}
            kw_ = {f: getattr(plain, f) for f in plain.__dataclass_fields__}
            kw_["param_batch_dict"] = d_
            return type(plain)(**kw_)
        sl = slice(None) if rows is None else rows
        kind = self.kind
        if kind == "ode":
            b = jinns.data.ODEBatch(temporal_batch=jnp.asarray(self.pts[sl, 0]))
        elif kind == "statio":
            b = jinns.data.PDEStatioBatch(inside_batch=jnp.asarray(self.pts[sl]),
                                          border_batch=jnp.asarray(self.border[sl]) if "boundary" in self.parts else None)
        else:
            b = jinns.data.PDENonStatioBatch(times_x_inside_batch=jnp.asarray(self.pts[sl]),
                                             times_x_border_batch=jnp.asarray(self.border[sl]) if "boundary" in self.parts else None)
        if "obs" in self.parts:
            b = jinns.data.append_obs_batch(b, {"pinn_in": jnp.asarray(self.obs_in[sl]), "val": jnp.asarray(self.obs_val[sl]),
                                                "eq_params": {k: jnp.asarray(v[sl]) for k, v in (obs_eq or {}).items()}})
        if param_batch:
            b = jinns.data.append_param_batch(b, {k: jnp.asarray(v[sl]) for k, v in param_batch.items()})
        return b

    # ------------------------------------------------------------ numpy expectation, per-row parameters
    def expected(self, eq_rows, eq_rows_obs=None, hfun=None):
        """eq_rows: list of dicts (one per sample) of the parameter values sample i must see"""
        net, spec, kind, B = self.net, self.spec, self.kind, self.B
        out = {}
        vals = []
        for i in range(B):
            eq = dict(eq_rows[i])
            z = self.pts[i]
            th = None
            if hfun is not None:
                eq = hfun(z, eq)
            vals.append(self.w["dyn"] * float(np.sum(spec.resid(net, z, eq) ** 2)))
        out["dyn_loss"] = float(np.mean(vals))
        if "ic" in self.parts:
            if kind == "ode":
                out["initial_condition"] = float(np.mean([self.w["ic"] * np.sum((net.val([self.t0], eq_rows[i]) - self.u0) ** 2)
                                                          for i in range(B)]))
            else:
                out["initial_condition"] = float(np.mean([self.w["ic"] * np.sum(
                    (self.u0 - net.val(np.concatenate([[0.0], self.pts[i, 1:]]), eq_rows[i])) ** 2) for i in range(B)]))
        if "boundary" in self.parts:
            tot = 0.0
            for f in range(self.border.shape[-1]):
                if self.bc == "neumann":
                    # derivative of u along the outward normal of facet f (xmin, xmax, ymin, ymax), row i of the
                    # parameters in the network of row i
                    ax = f // 2 + (1 if kind == "nonstatio" else 0)
                    sgn = [-1.0, 1.0][f % 2]
                    tot += float(np.mean([self.w["boundary"] * np.sum(
                        (sgn * net.grad(self.border[i, :, f], eq_rows[i])[:, ax] - self.fb) ** 2) for i in range(B)]))
                    continue
                tot += float(np.mean([self.w["boundary"] * np.sum((net.val(self.border[i, :, f], eq_rows[i]) - self.fb) ** 2)
                                      for i in range(B)]))
            out["boundary_loss"] = tot
        if "norm" in self.parts:
            if kind == "statio":
                us = [net.val(self.norm_samples[j], eq_rows[j])[0] for j in range(B)]
                out["norm_loss"] = self.w["norm"] * float((self.V * np.mean(us) - 1) ** 2)
            else:
                # time i (row i of the batch) with parameter row i, integral over all the samples
                out["norm_loss"] = self.w["norm"] * float(np.mean([
                    (self.V * np.mean([net.val(np.concatenate([[self.pts[i, 0]], x]), eq_rows[i])[0]
                                       for x in self.norm_samples]) - 1) ** 2 for i in range(B)]))
        if "obs" in self.parts:
            rows = eq_rows_obs or eq_rows
            out["observations"] = float(np.mean([self.w["obs"] * np.sum((net.val(self.obs_in[i], rows[i]) - self.obs_val[i]) ** 2)
                                                 for i in range(B)]))
        return out


def run_case(case, rec):
    import jax
    import jax.numpy as jnp
    import jinns
    from jinns.parameters import Params

    rng = np.random.default_rng([case["seed"], 12])
    if case["mode"] == "system":
        return run_system(case, rec, rng)
    if case["mode"] == "hyper":
        return run_hyper(case, rec, rng)
    ev = jax.jit(lambda l, p, b: l.evaluate(p, b))
    B = case["B"]

    if case["mode"] == "batch":
        parts = list(case["parts"])
        pr = Problem(case, rng, parts)
        if pr.bc == "neumann" and "boundary" in parts:
            rec.count("neumann_boundary_terms_with_parameter_batch")
        pr.make_data(B)
        loss = guard.call(pr.loss)
        params = pr.params
        batched = case["batched"]
        tabs = {k: rng.uniform(0.4, 1.6, (B, 1)) * (1 if k != "kappa" else -1) for k in batched}
        obs_eq = None
        if case["observed"] and "obs" in parts:
            free = [k for k in KEYS if k not in batched]
            if free:
                obs_eq = {free[0]: rng.uniform(0.4, 1.6, (B, 1))}
        tabs_given = tabs
        if case["seed"] % 4 == 1:
            # a hand-built batch of scalars: one value per sample, shape (B,) instead of (B, 1)
            tabs_given = {k: v[:, 0] for k, v in tabs.items()}
            rec.count("param_batches_of_shape_(B,)")
        batch = pr.batch(param_batch=tabs_given, obs_eq=obs_eq)
        sig = "param-batch/%s" % case["kind"]
        try:
            total, terms = guard.call(ev, loss, params, batch)
        except guard.Crash as c:
            rec.violation(sig + "/crash@" + c.where.split(":")[-1], "loss with parameter batch crashed: %s" % c,
                          parts=parts, batched=batched, B=B)
            return
        eq_rows = [dict(EQ0, **{k: float(tabs[k][i, 0]) for k in batched}) for i in range(B)]
        eq_rows_obs = None
        if obs_eq:
            eq_rows_obs = [dict(eq_rows[i], **{k: float(v[i, 0]) for k, v in obs_eq.items()}) for i in range(B)]
        exp = pr.expected(eq_rows, eq_rows_obs)
        # alignment observable?  compare with "every row replaced by the mean row"
        mean_rows = [dict(EQ0, **{k: float(np.mean(tabs[k])) for k in batched})] * B
        exp_mean = pr.expected(mean_rows)
        for t, e in exp.items():
            got = float(terms[t])
            rec.count("terms_compared")
            if abs(e - exp_mean[t]) > 1e-6:
                rec.nontrivial((case["kind"], case["d"], tuple(batched), t, B, case["seed"]))
            if not close(got, e, 1e-8, 1e-10):
                rec.violation("%s/%s/%s" % (sig, t, "observed" if (t == "observations" and obs_eq) else "value"),
                              "term %s = %r with per-sample parameters %s, expected %r (row i with row i)"
                              % (t, got, batched, e), got=got, expected=e, batched=batched, parts=parts, B=B)
        rec.set_sample(kind=case["kind"], batched=batched, parts=parts, B=B,
                       terms={k: float(v) for k, v in terms.items()}, expected=exp)
        # ---- loop of unbatched real losses (dyn, ic, boundary, obs are plain means)
        acc = {}
        for i in range(B):
            p_i = Params(nn_params=params.nn_params,
                         eq_params={k: jnp.asarray([eq_rows[i][k]]) if k in batched else params.eq_params[k] for k in KEYS})
            oe = {k: v[i:i + 1] for k, v in (obs_eq or {}).items()}
            bi = pr.batch(rows=slice(i, i + 1), obs_eq={k: v for k, v in (obs_eq or {}).items()} if obs_eq else None)
            _, ti = guard.call(ev, loss, p_i, bi)
            for t in ("dyn_loss", "initial_condition", "boundary_loss", "observations"):
                if t in ti:
                    acc[t] = acc.get(t, 0.0) + float(ti[t]) / B
        for t in ("dyn_loss", "initial_condition", "boundary_loss", "observations"):
            if t in exp:
                rec.count("loop_comparisons")
                if not close(float(terms[t]), acc[t], 1e-8, 1e-10):
                    rec.violation("%s/%s/batched-differs-from-mean-of-unbatched" % (sig, t),
                                  "term %s: batched %r, mean of unbatched evaluations %r" % (t, float(terms[t]), acc[t]))
        # ---- derivative routing: gradient w.r.t. every unbatched key and w.r.t. the network
        free = [k for k in KEYS if k not in batched and not (obs_eq and k in obs_eq)]
        if free:
            gfun = jax.jit(jax.grad(lambda p, l, b: l.evaluate(p, b)[0]))
            g = guard.call(gfun, params, loss, batch)
            gl = None
            for i in range(B):
                p_i = Params(nn_params=params.nn_params,
                             eq_params={k: jnp.asarray([eq_rows[i][k]]) if k in batched else params.eq_params[k] for k in KEYS})
                bi = pr.batch(rows=slice(i, i + 1), obs_eq=obs_eq)
                # norm term is not a mean of per-sample terms: switch it off for the loop
                gi = guard.call(gfun, p_i, loss, bi)
                gl = gi if gl is None else jax.tree_util.tree_map(lambda a, b_: a + b_, gl, gi)
            if "norm" not in parts:
                for k in free:
                    rec.count("grad_comparisons")
                    a, b_ = float(np.sum(g.eq_params[k])), float(np.sum(gl.eq_params[k])) / B
                    if not close(a, b_, 1e-7, 1e-9):
                        rec.violation("%s/gradient/unbatched-key" % sig,
                                      "d total / d %s = %r with the parameter batch, %r from the per-sample loop"
                                      % (k, a, b_), batched=batched)
                la = np.concatenate([np.asarray(x).reshape(-1) for x in jax.tree_util.tree_leaves(g.nn_params)])
                lb = np.concatenate([np.asarray(x).reshape(-1) for x in jax.tree_util.tree_leaves(gl.nn_params)]) / B
                rec.count("grad_comparisons")
                if not close(la, lb, 1e-7, 1e-9):
                    rec.violation("%s/gradient/network" % sig, "network gradient differs from the per-sample loop")
        # a batch built directly with the public constructor, keys in reverse-sorted insertion order, evaluated eagerly
        if len(batched) >= 2:
            bd = pr.batch(param_batch=tabs, obs_eq=obs_eq, direct=True)
            td = guard.call(loss.evaluate, params, bd)[1]
            rec.count("direct_batches_reverse_key_order")
            for t in exp:
                if not close(float(td[t]), exp[t], 1e-8, 1e-10):
                    rec.violation("%s/%s/direct-batch-key-order" % (sig, t),
                                  "term %s = %r for a batch built directly with param_batch_dict keys %s (eager), expected %r"
                                  % (t, float(td[t]), sorted(batched, reverse=True), exp[t]))
        # the tutorial idiom: the caller's params already hold a (stale) batch for the batched keys, e.g. the first
        # batch drawn when the parameters were created - only the batch carried by THIS call counts
        if case["seed"] % 2 == 0:
            # ... or an integer placeholder (eq_params={"nu": 1, ...}): whatever the caller left under a batched key,
            # its value and its type are irrelevant
            ph = [lambda: jnp.asarray(rng.uniform(2.0, 3.0, (B, 1))), lambda: 1, lambda: jnp.asarray([2])][(case["seed"] // 2) % 3]
            stale = Params(nn_params=params.nn_params,
                           eq_params={k: (ph() if k in batched else params.eq_params[k]) for k in KEYS})
            rec.count("stale_batch_in_caller_params")
            rec.count("placeholder_form_%d" % ((case["seed"] // 2) % 3))
            try:
                ts = guard.call(ev, loss, stale, batch)[1]
            except guard.Crash as c:
                rec.violation(sig + "/stale-batch-in-caller-params/crash", "caller's eq_params hold a placeholder / an earlier batch for %s: %s"
                              % (batched, c))
                ts = None
            for t in (exp if ts is not None else ()):
                if not close(float(ts[t]), exp[t], 1e-8, 1e-10):
                    rec.violation("%s/%s/stale-batch-in-caller-params" % (sig, t),
                                  "term %s = %r when the caller's eq_params hold a placeholder (earlier batch / integer) for the batched keys %s, "
                                  "expected %r (this call's batch overrides it)" % (t, float(ts[t]), batched, exp[t]))
        # caller's params untouched (eager call: under jit the function only sees a copy of the containers)
        if case["seed"] % 3 == 0:
            te = guard.call(loss.evaluate, params, batch)[1]
            rec.count("eager_evaluations")
            for t in exp:
                if not close(float(te[t]), float(terms[t]), 1e-10, 1e-12):
                    rec.violation("%s/%s/eager-differs-from-jit" % (sig, t), "eager %r vs jit %r" % (float(te[t]), float(terms[t])))
        for k in KEYS:
            if float(np.sum(np.asarray(params.eq_params[k]))) != EQ0[k]:
                rec.violation("%s/caller-params-modified" % sig, "caller's eq_params[%s] changed" % k)
        return

    # =========================================================================== heterogeneity
    rec.count("hetero_cases")
    parts = {"ode": ["ic", "obs"], "statio": ["boundary", "obs"], "nonstatio": ["ic", "boundary", "obs"]}[case["kind"]]
    pr = Problem(case, rng, parts)
    pr.make_data(B)
    D = pr.D
    ha, hb, hc = float(rng.uniform(0.5, 1.5)), rng.uniform(-1, 1, D), float(rng.uniform(0.5, 1.5))
    HB = jnp.asarray(hb)

    def h_core(z, params):
        return ha + HB @ z + hc * jnp.sum(params.eq_params["kappa"])

    if case["kind"] == "ode":
        hj = lambda t, u, params: h_core(jnp.reshape(t, (1,)), params)
    elif case["kind"] == "statio":
        hj = lambda x, u, params: h_core(x, params)
    else:
        hj = lambda t, x, u, params: h_core(jnp.concatenate([t, x]), params)
    hm = case["hmap"]
    hetero = {"none": None, "theta": {"theta": hj, "phi": None, "kappa": None},
              "all": {"theta": hj, "phi": None, "kappa": hj}, "missing": {"theta": hj},
              "none_entries": {"theta": None, "phi": None, "kappa": None}}[hm]
    declared = [k for k, v in (hetero or {}).items() if v is not None]

    def hfun(z, eq):
        e = dict(eq)
        hv = ha + float(np.dot(hb, z)) + hc * eq["kappa"]
        for k in declared:
            e[k] = hv
        return e

    Tmax = [1.0, 2.5, 0.4][case["seed"] % 3]
    loss_h = guard.call(pr.loss, hetero=hetero, Tmax=Tmax)
    loss_0 = guard.call(pr.loss, hetero=None, Tmax=Tmax)
    params = pr.params
    tabs = {"kappa": -rng.uniform(0.4, 1.6, (B, 1))} if case["pbatch"] else None
    batch = pr.batch(param_batch=tabs)
    sig = "heterogeneity/%s/%s" % (case["kind"], hm)
    try:
        _, th = guard.call(ev, loss_h, params, batch)
    except guard.Crash as c:
        rec.violation(sig + "/crash", "loss with heterogeneous parameters crashed: %s" % c, hmap=hm, pbatch=case["pbatch"])
        return
    _, t0 = guard.call(ev, loss_0, params, batch)
    eq_rows = [dict(EQ0, **({"kappa": float(tabs["kappa"][i, 0])} if tabs else {})) for i in range(B)]
    exp = pr.expected(eq_rows, hfun=hfun if declared else None)
    rec.count("terms_compared", len(exp))
    exp_plain = pr.expected(eq_rows)
    if declared and abs(exp["dyn_loss"] - exp_plain["dyn_loss"]) > 1e-6:
        rec.nontrivial((case["kind"], hm, case["pbatch"], B, case["seed"]))
    rec.set_sample(kind=case["kind"], hmap=hm, pbatch=case["pbatch"], dyn=float(th["dyn_loss"]), expected=exp["dyn_loss"],
                   without_heterogeneity=exp_plain["dyn_loss"])
    if not close(float(th["dyn_loss"]), exp["dyn_loss"], 1e-8, 1e-10):
        rec.violation(sig + "/equation-value", "dynamic term %r, expected %r with %s replaced by h(point) inside the "
                      "equation (without replacement %r)" % (float(th["dyn_loss"]), exp["dyn_loss"], declared,
                                                            exp_plain["dyn_loss"]), declared=declared)
    for t in exp:
        if t == "dyn_loss":
            continue
        if not close(float(th[t]), float(t0[t]), 1e-12, 1e-14) or not close(float(th[t]), exp[t], 1e-8, 1e-10):
            rec.violation(sig + "/other-term-changed/%s" % t,
                          "term %s = %r with heterogeneity, %r without, expected %r (caller's value must be kept)"
                          % (t, float(th[t]), float(t0[t]), exp[t]))


def run_system(case, rec, rng):
    """2-unknown system with a parameter batch: terms == mean over rows of the unbatched system loss"""
    import jax
    import jax.numpy as jnp
    import jinns
    from jinns.parameters import ParamsDict

    from .c13 import SystemProblem

    rec.count("system_cases")
    B = case["B"]
    sp = SystemProblem(dict(case, E=2, U=2, weights="scalar", parts=["ic"] if case["kind"] != "statio" else ["boundary"],
                            names=["a", "b"], eqnames=["e1", "e2"]), rng)
    sp.make_data(B)
    loss = guard.call(sp.loss)
    pd = sp.params
    batched = case["batched"]
    tabs = {k: rng.uniform(0.4, 1.6, (B, 1)) for k in batched}
    batch = sp.batch(param_batch=tabs)
    sig = "param-batch/system-%s" % case["kind"]
    snap = {k: np.asarray(v).copy() for k, v in pd.eq_params.items()}
    try:
        total, terms = guard.call(loss.evaluate, pd, batch)
    except guard.Crash as c:
        rec.violation(sig + "/crash/" + c.etype, "system loss with a parameter batch crashed: %s" % c, batched=batched)
        return
    for k, v in snap.items():
        if np.asarray(pd.eq_params[k]).shape != v.shape or not np.array_equal(np.asarray(pd.eq_params[k]), v):
            rec.violation(sig + "/caller-params-modified",
                          "evaluate() replaced the caller's params_dict.eq_params[%r] (shape %s -> %s)"
                          % (k, v.shape, np.asarray(pd.eq_params[k]).shape), key=k)
            # restore for the rest of the case
            pd.eq_params[k] = jnp.asarray(v)
    acc = {}
    for i in range(B):
        pdi = ParamsDict(nn_params=pd.nn_params,
                         eq_params={k: (jnp.asarray(tabs[k][i]) if k in batched else jnp.asarray(snap[k])) for k in snap})
        _, ti = guard.call(loss.evaluate, pdi, sp.batch(rows=slice(i, i + 1)))
        for t, v in ti.items():
            acc[t] = acc.get(t, 0.0) + float(v) / B
    exp = sp.expected([dict({k: float(np.sum(snap[k])) for k in snap}, **{k: float(tabs[k][i, 0]) for k in batched})
                       for i in range(B)])
    for t in acc:
        rec.count("terms_compared")
        if abs(acc[t]) > 1e-6:
            rec.nontrivial(("system", case["kind"], tuple(batched), t, B, case["seed"]))
        if not close(float(terms[t]), acc[t], 1e-8, 1e-10):
            rec.violation(sig + "/%s/batched-differs-from-mean-of-unbatched" % t,
                          "system term %s: batched %r, mean of unbatched %r" % (t, float(terms[t]), acc[t]))
        if t in exp and not close(float(terms[t]), exp[t], 1e-8, 1e-10):
            rec.violation(sig + "/%s/value" % t, "system term %s = %r, numpy expectation %r" % (t, float(terms[t]), exp[t]))
    # the caller's params_dict already holds an (earlier) batch under the batched keys: this call's batch overrides it
    if case["seed"] % 2 == 0:
        stale = ParamsDict(nn_params=pd.nn_params,
                           eq_params={k: (jnp.asarray(rng.uniform(2.0, 3.0, (B, 1))) if k in batched else jnp.asarray(snap[k]))
                                      for k in snap})
        rec.count("stale_batch_in_caller_params")
        try:
            _, ts = guard.call(loss.evaluate, stale, batch)
        except guard.Crash as c:
            rec.violation(sig + "/stale-batch-in-caller-params/crash", "caller's eq_params hold an earlier batch for %s: %s" % (batched, c))
            ts = None
        for t in (acc if ts is not None else ()):
            if not close(float(ts[t]), float(terms[t]), 1e-9, 1e-11):
                rec.violation(sig + "/%s/stale-batch-in-caller-params" % t,
                              "system term %s = %r when the caller's eq_params hold an earlier batch for %s, %r otherwise"
                              % (t, float(ts[t]), batched, float(terms[t])))
    rec.set_sample(kind=case["kind"], batched=batched, terms={k: float(v) for k, v in terms.items()}, loop=acc)


def run_hyper(case, rec, rng):
    """hyper-network wrapper: the batched keys feed the hyper-network (phi, kappa) and/or the equation (theta);
    oracle = mean over rows of the unbatched real loss (no numpy twin of the hyper-network here, see C10)"""
    import equinox as eqx
    import jax
    import jax.numpy as jnp
    import jinns
    from jinns.parameters import Params

    from .. import eqs

    rec.count("hyper_cases")
    kind, d, B = case["kind"], case["d"], case["B"]
    D = {"ode": 1, "statio": d, "nonstatio": d + 1}[kind]
    eqt = {"ode": "ODE", "statio": "statio_PDE", "nonstatio": "nonstatio_PDE"}[kind]
    lst = ((eqx.nn.Linear, D, 4), (jax.nn.tanh,), (eqx.nn.Linear, 4, 1))
    u = guard.call(jinns.utils.create_HYPERPINN, jax.random.PRNGKey(case["seed"] % 1000), lst, eqt, ["phi", "kappa"], 2,
                   0 if kind == "ode" else d,
                   eqx_list_hyper=((eqx.nn.Linear, 2, 3), (jax.nn.tanh,), (eqx.nn.Linear, 3, 1)))
    params = Params(nn_params=u.init_params(), eq_params={k: jnp.asarray([v]) for k, v in EQ0.items()})
    spec = eqs.ResidSpec(case["seed"], 2, 1, D)
    dyn = spec.module(kind)
    kw = {}
    pts = rng.uniform(0, 1, (B, 1)) if kind == "ode" else rng.uniform(-1, 2, (B, D))
    if kind == "ode":
        loss = jinns.loss.LossODE(u=u, dynamic_loss=dyn, initial_condition=(0.25, jnp.asarray([0.3])), params=params)
        mk = lambda sl: jinns.data.ODEBatch(temporal_batch=jnp.asarray(pts[sl, 0]))
    elif kind == "statio":
        loss = jinns.loss.LossPDEStatio(u=u, dynamic_loss=dyn, params=params)
        mk = lambda sl: jinns.data.PDEStatioBatch(inside_batch=jnp.asarray(pts[sl]), border_batch=None)
    else:
        c0 = jnp.asarray([0.2])
        loss = jinns.loss.LossPDENonStatio(u=u, dynamic_loss=dyn, initial_condition_fun=lambda x: c0 + 0.0 * jnp.sum(x), params=params)
        mk = lambda sl: jinns.data.PDENonStatioBatch(times_x_inside_batch=jnp.asarray(pts[sl]), times_x_border_batch=None)
    batched = case["batched"]
    tabs = {k: rng.uniform(0.4, 1.6, (B, 1)) for k in batched}
    batch = jinns.data.append_param_batch(mk(slice(None)), {k: jnp.asarray(v) for k, v in tabs.items()})
    ev = jax.jit(lambda l, p, b: l.evaluate(p, b))
    sig = "param-batch/hyper-%s" % kind
    try:
        _, terms = guard.call(ev, loss, params, batch)
    except guard.Crash as c:
        rec.violation(sig + "/crash@" + c.where.split(":")[-1], "hyper-network loss with a parameter batch crashed: %s" % c, batched=batched)
        return
    acc, acc_mean = {}, {}
    for i in range(B):
        p_i = Params(nn_params=params.nn_params,
                     eq_params={k: (jnp.asarray(tabs[k][i]) if k in batched else params.eq_params[k]) for k in KEYS})
        _, ti = guard.call(ev, loss, p_i, mk(slice(i, i + 1)))
        if i == 0:
            # the same unbatched evaluation op by op, with the caller's dictionary in its own insertion order (jit
            # re-sorts dictionary keys: an input assembled in dictionary order would differ between the two)
            _, te = guard.call(loss.evaluate, p_i, mk(slice(i, i + 1)))
            rec.count("eager_evaluations")
            for t in ti:
                if not close(float(te[t]), float(ti[t]), 1e-10, 1e-12):
                    rec.violation(sig + "/%s/eager-differs-from-jit" % t,
                                  "hyper-network (hyperparams ['phi', 'kappa']): unbatched term %s is %r eagerly, %r under jit"
                                  % (t, float(te[t]), float(ti[t])))
        p_m = Params(nn_params=params.nn_params,
                     eq_params={k: (jnp.asarray(np.mean(tabs[k], axis=0)) if k in batched else params.eq_params[k]) for k in KEYS})
        _, tm = guard.call(ev, loss, p_m, mk(slice(i, i + 1)))
        for t in ti:
            acc[t] = acc.get(t, 0.0) + float(ti[t]) / B
            acc_mean[t] = acc_mean.get(t, 0.0) + float(tm[t]) / B
    # the initial-condition term recomputed from DIRECT calls of the wrapper (outside any jinns loss / vmap, parameters in
    # a dictionary written in the declared hyper-parameter order): row i of the batched keys must reach the
    # hyper-network in the slots of the declared hyperparams list
    if kind in ("ode", "nonstatio") and "initial_condition" in terms:
        vals = []
        for i in range(B):
            p_i = Params(nn_params=params.nn_params,
                         eq_params={k: (jnp.asarray(tabs[k][i]) if k in batched else params.eq_params[k]) for k in KEYS})
            if kind == "ode":
                ui = guard.call(u, jnp.asarray([0.25]), p_i)
                vals.append(float(np.sum((np.asarray(ui) - 0.3) ** 2)))
            else:
                ui = guard.call(u, jnp.zeros((1,)), jnp.asarray(pts[i, 1:]), p_i)
                vals.append(float(np.sum((0.2 - np.asarray(ui)) ** 2)))
        rec.count("hyper_direct_call_references")
        if not close(float(terms["initial_condition"]), float(np.mean(vals)), 1e-8, 1e-10):
            rec.violation(sig + "/initial_condition/differs-from-direct-wrapper-calls",
                          "hyper-network: initial-condition term %r, from direct calls of the wrapper with row i of %s: %r"
                          % (float(terms["initial_condition"]), batched, float(np.mean(vals))))
    for t in acc:
        rec.count("terms_compared")
        if abs(acc[t] - acc_mean[t]) > 1e-6:
            rec.nontrivial(("hyper", kind, d, tuple(batched), t, B, case["seed"]))
        if not close(float(terms[t]), acc[t], 1e-8, 1e-10):
            rec.violation(sig + "/%s/batched-differs-from-mean-of-unbatched" % t,
                          "hyper-network: term %s batched %r, mean of unbatched evaluations %r (batched keys %s)"
                          % (t, float(terms[t]), acc[t], batched))
    rec.set_sample(mode="hyper", kind=kind, batched=batched, B=B, terms={k: float(v) for k, v in terms.items()}, loop=acc)
