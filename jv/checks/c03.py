"""C03 - total loss is the sum of its terms; dynamic term is the batch-mean weighted
residual MSE (linear in its weight, permutation invariant, average of two halves).

Observe: (total, terms) of the real LossODE / LossPDEStatio / LossPDENonStatio evaluated
(under jit and eagerly) on analytic fields with user equations written in the harness.
Oracle: numpy loop over batch points; metamorphic relations on the observed values.
"""
import itertools

import numpy as np

from .. import fields, guard, nets
from ..core import close

PROPERTY = "C03"
LEVEL = "exploration"
RULE = ("cases = loss kind (ODE / stationary d=1..3 / non-stationary d=1..2) x network (pointwise, separable) "
        "x residual components 1..3 x outputs 1..3 x batch size 1..17 x every subset of optional parts "
        "configured x weight form (scalar, per-component); non-trivial = expected dynamic term > 1e-6; "
        "distinct = distinct configuration tuples; cases with >= 2 components and non-uniform per-component "
        "weights are counted separately (a sum over the wrong axis is invisible otherwise)")
ASSUMPTIONS = [
    "user equations return an explicit component axis (a 0-d residual is outside the statement)",
    "for separable networks the mean runs over the tensor grid of the batch",
    "total compared with the float sum of the returned terms at rtol 1e-12",
]
TIMEOUT = {"quick": 1500, "thorough": 5400}
MIN_COUNTERS = {"quick": {"evaluations_checked": 300, "multi_component_nonuniform_weight_cases": 15,
                          "unconfigured_terms_checked_zero": 100},
                "thorough": {"evaluations_checked": 4000, "multi_component_nonuniform_weight_cases": 200,
                             "unconfigured_terms_checked_zero": 1500}}

PARTS = {"ode": ["ic", "obs"], "statio": ["boundary", "norm", "obs"],
         "nonstatio": ["ic", "boundary", "norm", "obs"]}
TERM_OF = {"ic": "initial_condition", "boundary": "boundary_loss", "norm": "norm_loss", "obs": "observations"}


def gen_cases(tier, seed):
    rng = np.random.default_rng(seed + 303)
    q = tier == "quick"
    cases = []
    combos = []
    for kind in ("ode", "statio", "nonstatio"):
        for r in range(len(PARTS[kind]) + 1):
            for sub in itertools.combinations(PARTS[kind], r):
                combos.append((kind, list(sub)))
    N = 100 if q else 1500
    for k in range(N):
        kind, parts = combos[k % len(combos)]
        d = 0 if kind == "ode" else int(rng.integers(1, 4 if kind == "statio" else 3))
        net = "pinn"
        if kind != "ode" and k % 5 == 4:
            net = "spinn"
            parts = [p for p in parts if p in ("ic", "norm")]
            d = min(d, 2)
        if "boundary" in parts and d == 3:
            d = 2
        cases.append(dict(kind=kind, d=d, net=net, parts=parts, ncomp=int(rng.integers(1, 4)),
                          n_out=int(rng.integers(1, 4)), B=int(rng.integers(1, 18)) if net == "pinn" else int(rng.integers(2, 4)),
                          wvec=bool(rng.integers(2)), eager=(k % 10 == 0), seed=seed * 100000 + k, x64=bool(k % 7 != 3),
                          cost=1.0 + (1.0 if net == "spinn" else 0.0)))
        c = cases[-1]
        if c["wvec"] and c["ncomp"] >= 2 and net == "pinn" and k % 3 == 0:
            c["B"] = c["ncomp"]  # as many batch points as residual components: the weight is still per component
    return cases


def run_case(case, rec):
    import equinox as eqx
    import jax
    import jax.numpy as jnp
    import jinns
    from jinns.parameters import Params

    from .. import eqs

    kind, d, parts, B = case["kind"], case["d"], case["parts"], case["B"]
    D = {"ode": 1, "statio": d, "nonstatio": d + 1}[kind]
    eqt = {"ode": "ODE", "statio": "statio_PDE", "nonstatio": "nonstatio_PDE"}[kind]
    rng = np.random.default_rng([case["seed"], 3])
    spinn = case["net"] == "spinn"
    if spinn:
        sf = fields.SepField(case["seed"], D, 2, case["n_out"])
        net = nets.SNet(sf, eqt)
        u = net.spinn()
    else:
        net = nets.Net(fields.TrigField(case["seed"], D, case["n_out"]), eqt)
        u = net.pinn()
    n_out = net.n_out
    eq = {"theta": 0.8}
    params = Params(nn_params=net.nn_params(), eq_params={"theta": jnp.asarray(0.8)})
    spec = eqs.ResidSpec(case["seed"], case["ncomp"], n_out, D, with_deriv=not spinn)
    dyn = spec.module(kind)
    wdyn = rng.uniform(0.3, 3.0, case["ncomp"]) if case["wvec"] else float(rng.uniform(0.3, 3.0))
    wj = jnp.asarray(wdyn) if case["wvec"] else wdyn

    # ---------------------------------------------------------------- batch + optional parts
    kw = {}
    lwkw = {"dyn_loss": wj}
    if kind == "ode":
        pts = rng.uniform(0, 1, (B, 1))
        mk = lambda P: jinns.data.ODEBatch(temporal_batch=jnp.asarray(P[:, 0]))
        if "ic" in parts:
            kw["initial_condition"] = (0.25, jnp.asarray(rng.uniform(-1, 1, n_out)))
            lwkw["initial_condition"] = 1.3
        Loss, LW = jinns.loss.LossODE, jinns.loss.LossWeightsODE
    else:
        pts = rng.uniform(-1, 2, (B, D))
        if "boundary" in parts:
            nf = 2 * d
            cols = []
            for f in range(nf):
                p = rng.uniform(-1, 2, (2 if d == 2 else 1, d))
                p[:, f // 2] = [-1.0, 2.0][f % 2]
                cols.append(p)
            sp = np.stack(cols, -1)
            if kind == "nonstatio":
                sp = np.concatenate([0.3 * np.ones((sp.shape[0], 1, nf)), sp], axis=1)
            border = jnp.asarray(sp)
            if kind == "statio":
                kw["omega_boundary_fun"] = lambda dx: 0.3
            else:
                kw["omega_boundary_fun"] = lambda t, dx: 0.3
            kw["omega_boundary_condition"] = "dirichlet"
            lwkw["boundary_loss"] = 0.7
        else:
            border = None
        if "norm" in parts:
            kw["norm_samples"] = jnp.asarray(rng.uniform(-1, 2, (4 if not spinn else B, d)))
            kw["norm_int_length"] = 2.5
            lwkw["norm_loss"] = 1.1
        if "ic" in parts:
            c0 = jnp.asarray(rng.uniform(-1, 1, n_out))
            kw["initial_condition_fun"] = (lambda x: c0 + 0.0 * jnp.sum(x)) if not spinn else (
                lambda x: c0 + 0.0 * x[..., 0:1])
            lwkw["initial_condition"] = 0.9
        if kind == "statio":
            mk = lambda P: jinns.data.PDEStatioBatch(inside_batch=jnp.asarray(P), border_batch=border)
            Loss, LW = jinns.loss.LossPDEStatio, jinns.loss.LossWeightsPDEStatio
        else:
            mk = lambda P: jinns.data.PDENonStatioBatch(times_x_inside_batch=jnp.asarray(P),
                                                        times_x_border_batch=border)
            Loss, LW = jinns.loss.LossPDENonStatio, jinns.loss.LossWeightsPDENonStatio
    if "obs" in parts:
        lwkw["observations"] = 1.7
    loss = guard.call(Loss, u=u, dynamic_loss=dyn, loss_weights=LW(**lwkw), params=params, **kw)

    def with_obs(batch, nrows):
        if "obs" not in parts:
            return batch
        pin = rng.uniform(-1, 2, (nrows, D))
        # half of the cases carry observed equation parameters (values far from the caller's): they belong to the
        # observation term only - the dynamic term must still be evaluated with the given parameters
        oeq = {"theta": jnp.asarray(rng.uniform(3.0, 5.0, (nrows, 1)))} if case["seed"] % 2 else {}
        if oeq:
            rec.count("obs_batches_with_observed_eq_params")
        return jinns.data.append_obs_batch(batch, {"pinn_in": jnp.asarray(pin),
                                                   "val": jnp.asarray(rng.uniform(-1, 1, (nrows, n_out))),
                                                   "eq_params": oeq})

    ev = (lambda l, p, b: l.evaluate(p, b)) if case["eager"] else jax.jit(lambda l, p, b: l.evaluate(p, b))
    mode = "eager" if case["eager"] else "jit"
    batch = with_obs(mk(pts), B)

    # ---------------------------------------------------------------- oracle for the dynamic term
    def dyn_expected(P, wts):
        vals = []
        if spinn:
            for idx in itertools.product(range(P.shape[0]), repeat=D):
                z = np.array([P[idx[k], k] for k in range(D)])
                vals.append(float(np.sum(np.asarray(wts) * spec.resid(net, z, eq) ** 2)))
        else:
            for z in P:
                vals.append(float(np.sum(np.asarray(wts) * spec.resid(net, z, eq) ** 2)))
        return float(np.mean(vals))

    total, terms = guard.call(ev, loss, params, batch)
    rec.count("evaluations_checked")
    rec.count("evaluations_%s" % mode)
    sigk = "%s/%s" % (kind, case["net"])
    tsum = sum(float(v) for v in terms.values())
    if not close(float(total), tsum, 1e-12, 1e-14):
        rec.violation("total-not-sum/" + sigk, "total %r != sum of returned terms %r (%s)"
                      % (float(total), tsum, {k: float(v) for k, v in terms.items()}))
    for p_ in PARTS[kind]:
        if p_ not in parts:
            rec.count("unconfigured_terms_checked_zero")
            if float(terms[TERM_OF[p_]]) != 0.0:
                rec.violation("unconfigured-term-nonzero/%s/%s" % (sigk, p_),
                              "term %s was not configured but equals %r" % (TERM_OF[p_], float(terms[TERM_OF[p_]])))
        else:
            rec.count("configured_terms_seen")
            if float(terms[TERM_OF[p_]]) == 0.0:
                rec.count("configured_term_is_zero")
    if kind == "statio" and float(terms.get("initial_condition", 0.0)) != 0.0:
        rec.violation("unconfigured-term-nonzero/%s/ic" % sigk, "stationary loss reports an initial-condition term")
    exp = dyn_expected(pts, wdyn)
    got = float(terms["dyn_loss"])
    nonuni = case["wvec"] and case["ncomp"] >= 2
    if nonuni and B == case["ncomp"]:
        rec.count("per_component_weights_with_batch_size_equal_ncomp")
    if nonuni:
        rec.count("multi_component_nonuniform_weight_cases")
    if exp > 1e-6:
        rec.nontrivial((kind, d, case["net"], tuple(parts), case["ncomp"], n_out, B, case["wvec"], mode, case["seed"]))
    rec.set_sample(kind=kind, d=d, net=case["net"], parts=parts, ncomp=case["ncomp"], B=B, weights=wdyn,
                   total=float(total), terms={k: float(v) for k, v in terms.items()}, expected_dyn=exp)
    if not close(got, exp, 1e-8, 1e-10):
        rec.violation("dyn-term/%s/%s" % (sigk, "per-component-weight" if nonuni else "value"),
                      "dynamic term %r, expected mean_i sum_c w_c r_c(p_i)^2 = %r (B=%d ncomp=%d w=%s)"
                      % (got, exp, B, case["ncomp"], wdyn), got=got, expected=exp)
    # ---------------------------------------------------------------- a residual that is NaN at ONE collocation point
    # (finite parameters; e.g. sin(t)/t with t = 0 in the batch): the mean over the batch points is then NaN - the
    # point may not be dropped silently
    if case["seed"] % 5 == 2 and not spinn and B >= 2:
        from ..eqs import singular_module
        ls = eqx.tree_at(lambda l: l.dynamic_loss, loss, singular_module(dyn, kind, pts[B // 2]))
        tot_s, terms_s = guard.call(ev, ls, params, batch)
        rec.count("batches_with_one_singular_point")
        if not np.isnan(float(terms_s["dyn_loss"])):
            rec.violation("dyn-term/%s/nan-residual-point-dropped" % sigk,
                          "the residual is NaN at one of the %d batch points but the dynamic term is %r (mean over all points "
                          "of the batch is NaN; value with that point finite: %r)" % (B, float(terms_s["dyn_loss"]), got))
        if not np.isnan(float(tot_s)):
            rec.violation("total-not-sum/%s/nan-term" % sigk, "a NaN dynamic term but a finite total %r" % float(tot_s))
    # ---------------------------------------------------------------- "with the given parameters": a hand-built batch
    # that carries one value of theta per point (and of a second, unused parameter written after it), evaluated as
    # the user wrote it (eagerly, dictionary in the user's key order)
    if case["seed"] % 4 == 3 and not spinn:
        th, aux = rng.uniform(0.5, 1.5, (B, 1)), rng.uniform(3.0, 5.0, (B, 1))
        p2 = Params(nn_params=net.nn_params(), eq_params={"theta": jnp.asarray(0.8), "aux": jnp.asarray(0.0)})
        l2 = guard.call(Loss, u=u, dynamic_loss=dyn, loss_weights=LW(dyn_loss=wj), params=p2)
        pbd = {"theta": jnp.asarray(th), "aux": jnp.asarray(aux)}
        if kind == "ode":
            b2 = jinns.data.ODEBatch(temporal_batch=jnp.asarray(pts[:, 0]), param_batch_dict=pbd)
        elif kind == "statio":
            b2 = jinns.data.PDEStatioBatch(inside_batch=jnp.asarray(pts), border_batch=None, param_batch_dict=pbd)
        else:
            b2 = jinns.data.PDENonStatioBatch(times_x_inside_batch=jnp.asarray(pts), times_x_border_batch=None,
                                              param_batch_dict=pbd)
        _t2, terms2 = guard.call(l2.evaluate, p2, b2)
        rec.count("hand_built_parameter_batches")
        e2 = float(np.mean([np.sum(np.asarray(wdyn) * spec.resid(net, z, {"theta": float(th[i, 0])}) ** 2)
                            for i, z in enumerate(pts)]))
        if not close(float(terms2["dyn_loss"]), e2, 1e-8, 1e-10):
            rec.violation("dyn-term/%s/per-point-parameters" % sigk,
                          "dynamic term %r on a batch giving theta per point (param_batch_dict keys theta, aux), expected "
                          "mean_i sum_c w_c r_c(p_i; theta_i)^2 = %r" % (float(terms2["dyn_loss"]), e2))
    # ---------------------------------------------------------------- the documented default: every weight 1.0
    if case["seed"] % 4 == 1:
        ld = guard.call(Loss, u=u, dynamic_loss=dyn, params=params, **kw)
        td, tt = guard.call(ev, ld, params, batch)
        rec.count("default_weight_losses")
        e1 = dyn_expected(pts, np.ones(case["ncomp"]))
        if not close(float(tt["dyn_loss"]), e1, 1e-8, 1e-10):
            rec.violation("dyn-term/%s/default-weights" % sigk, "dynamic term %r of a loss built without loss_weights, "
                          "expected %r (documented default 1.0)" % (float(tt["dyn_loss"]), e1))
        for tname, wgiven in lwkw.items():
            if tname != "dyn_loss" and float(terms[tname]) != 0.0:
                # other configured terms scale with their weight: value with weight w == w * value with weight 1
                if not close(float(terms[tname]), wgiven * float(tt[tname]), 1e-9, 1e-11):
                    rec.violation("default-weights/%s/%s" % (sigk, tname), "term %s: %r with weight %r but %r with the default "
                                  "weight (expected 1.0)" % (tname, float(terms[tname]), wgiven, float(tt[tname])))
        if not close(float(td), sum(float(v) for v in tt.values()), 1e-12, 1e-14):
            rec.violation("total-not-sum/%s/default-weights" % sigk, "total %r != sum of terms with default weights" % float(td))
    # ---------------------------------------------------------------- metamorphic relations
    # one weight for all components may be spelled as a Python number, a 0-d array or a (1,) array
    if not case["wvec"] and case["seed"] % 3 == 2:
        for form, wform in (("0-d", jnp.asarray(wdyn)), ("(1,)", jnp.asarray([wdyn]))):
            lf = eqx.tree_at(lambda l: l.loss_weights.dyn_loss, loss, wform)
            rec.count("scalar_weight_given_as_array")
            try:
                gf = float(guard.call_supported(ev, lf, params, batch)[1]["dyn_loss"])
            except guard.Crash as c:
                rec.violation("dyn-term/%s/scalar-weight-as-%s-array/refused" % (sigk, form), "a scalar weight given as a %s array: %s" % (form, c))
                continue
            if not close(gf, got, 1e-10, 1e-12):
                rec.violation("dyn-term/%s/scalar-weight-as-%s-array" % (sigk, form),
                              "dynamic term %r with the weight given as a %s array, %r as a Python number" % (gf, form, got))
    # linear in the weight: any factor, negative ones included (the weight is a coefficient, not a scale of the residual)
    for a in (2.75, -1.5 if case["seed"] % 2 else 0.0):
        loss_a = eqx.tree_at(lambda l: l.loss_weights.dyn_loss, loss, (jnp.asarray(wdyn) * a) if case["wvec"] else wdyn * a)
        _, terms_a = guard.call(ev, loss_a, params, batch)
        rec.count("evaluations_checked")
        rec.count("linearity_factor_%s" % ("negative" if a < 0 else ("zero" if a == 0 else "positive")))
        if not close(float(terms_a["dyn_loss"]), a * got, 1e-10, 1e-12):
            rec.violation("dyn-term/%s/not-linear-in-weight%s" % (sigk, "/negative-factor" if a < 0 else ("/zero" if a == 0 else "")),
                          "L(%g w) = %r but %g L(w) = %r" % (a, float(terms_a["dyn_loss"]), a, a * got))
    if case["wvec"] and case["ncomp"] >= 2 and case["seed"] % 3 == 0:
        # mixed-sign per-component weights
        wm = np.asarray(wdyn) * np.array([(-1.0) ** c for c in range(case["ncomp"])])
        lm = eqx.tree_at(lambda l: l.loss_weights.dyn_loss, loss, jnp.asarray(wm))
        gm = float(guard.call(ev, lm, params, batch)[1]["dyn_loss"])
        rec.count("evaluations_checked")
        if not close(gm, dyn_expected(pts, wm), 1e-8, 1e-10):
            rec.violation("dyn-term/%s/per-component-weight/mixed-signs" % sigk,
                          "dynamic term %r with per-component weights %s, expected %r" % (gm, wm, dyn_expected(pts, wm)))
    if case["wvec"] and case["ncomp"] >= 2:
        # one component weight at a time: L(w) = sum_c L(w_c e_c)
        s = 0.0
        for c in range(case["ncomp"]):
            e = np.zeros(case["ncomp"])
            e[c] = wdyn[c]
            lc = eqx.tree_at(lambda l: l.loss_weights.dyn_loss, loss, jnp.asarray(e))
            s += float(guard.call(ev, lc, params, batch)[1]["dyn_loss"])
            rec.count("evaluations_checked")
        if not close(s, got, 1e-10, 1e-12):
            rec.violation("dyn-term/%s/not-additive-in-component-weights" % sigk,
                          "sum_c L(w_c e_c) = %r but L(w) = %r" % (s, got))
    if B >= 2:
        perm = rng.permutation(B)
        _, terms_p = guard.call(ev, loss, params, with_obs(mk(pts[perm]), B))
        rec.count("evaluations_checked")
        if not close(float(terms_p["dyn_loss"]), got, 1e-10, 1e-12):
            rec.violation("dyn-term/%s/not-permutation-invariant" % sigk,
                          "L(perm(batch)) = %r but L(batch) = %r" % (float(terms_p["dyn_loss"]), got))
    if B >= 2 and B % 2 == 0 and not spinn:
        h = B // 2
        l1 = float(guard.call(ev, loss, params, with_obs(mk(pts[:h]), h))[1]["dyn_loss"])
        l2 = float(guard.call(ev, loss, params, with_obs(mk(pts[h:]), h))[1]["dyn_loss"])
        rec.count("evaluations_checked", 2)
        rec.count("halves_identities_checked")
        if not close(0.5 * (l1 + l2), got, 1e-10, 1e-12):
            rec.violation("dyn-term/%s/halves" % sigk, "(L(h1)+L(h2))/2 = %r but L(batch) = %r"
                          % (0.5 * (l1 + l2), got))
