"""C16 - residual-adaptive refinement follows its schedule and never exceeds capacity.

Observe: (a) direct drive - init_rar then trigger_rar(i, ...) for i = 0..13 with the real
loss and parameters, reading p_times / p_omega / rar_iter_nb after every call (with batch
draws in between); (b) end to end - jinns.solve with JINNS_VERIF=1, iteration indices of
the steps from the hook's events, final generator from the return value.
Oracle: rarsim.RarAutomaton (DESIGN A.3).
"""
import numpy as np

from .. import guard, rarsim

PROPERTY = "C16"
LEVEL = "exploration"
RULE = ("schedules = start 0..4 x period 1..4 x initial counts {3,5,10} for time and space (equal or not) x totals "
        "chosen so that capacity is reached after 0..3 steps (or never) x selected 1..4 x candidates >= selected, 14 "
        "iterations, for ODE, stationary 2-D, non-stationary 1-D/2-D generators; direct drive and end-to-end; "
        "non-trivial = at least one refinement step expected; distinct = distinct schedule tuples")
ASSUMPTIONS = [
    "steps happen at start + k*update_every with k >= 0 (first step AT the start iteration): the repository's own "
    "--all_tests RAR test asserts ceil((n_iter-start)/every) steps, and the generator comment says so",
    "a step requires room for a full set in every stream of the generator (time and space)",
    "non-cartesian non-stationary RAR not covered; the store is at least as large as one set of additions",
]
TIMEOUT = {"quick": 2400, "thorough": 7200}
MIN_COUNTERS = {"quick": {"schedules_checked": 40, "steps_observed": 60, "schedules_hitting_capacity": 8, "hook_events": 60,
                          "e2e_schedules": 5},
                "thorough": {"schedules_checked": 600, "steps_observed": 900, "schedules_hitting_capacity": 100, "hook_events": 900,
                             "e2e_schedules": 50, "e2e_schedules_with_validation_module": 20}}


def gen_cases(tier, seed):
    q = tier == "quick"
    return rarsim.gen_rar_cases(tier, seed, 48 if q else 600, 8 if q else 60)


def crash_signature(case, c):
    return "crash/%s/%s/%s" % (case.get("kind"), "system-loss" if case.get("system") else "single-loss", c.etype)


def run_case(case, rec):
    if not rarsim.hook_available():
        rec.inconcl("guarded hook JINNS_VERIF is not active in jinns.solver._rar")
        return
    try:
        R = guard.call(rarsim.drive, case)
    except guard.Unsupported as u:
        rec.unsupp(u.reason)
        return
    B = R["built"]
    pk = B["pk"]
    aut = rarsim.RarAutomaton(case, pk)
    rec.count("schedules_checked")
    sig = "rar/%s" % pk
    label = "%s start=%d every=%d n_start=%d nt_start=%d n=%d nt=%d sel=(%d,%d) mode=%s" % (
        case["kind"], case["start"], case["every"], case["n_start"], case["nt_start"], case["n"], case["nt"],
        case["sel_t"], case["sel_x"], case["mode"])
    streams = list(aut.streams)
    totals = {s: aut.streams[s][2] for s in streams}

    def counts(st):
        return {s: int(np.count_nonzero(st["p_" + s])) for s in streams}

    # initial mask
    c0 = counts(R["init"])
    for s in streams:
        if c0[s] != aut.active(s):
            rec.violation(sig + "/initial-mask/" + s, "%s: %d active %s points before training, expected %d"
                          % (label, c0[s], s, aut.active(s)))
    observed_steps = []
    exp_steps_l = []
    if case["mode"] == "direct":
        for h in R["history"]:
            if h["kind"] != "trigger":
                if h["after"]["J"] != h["before"]["J"] or counts(h["after"]) != counts(h["before"]):
                    rec.violation(sig + "/draw-changed-refinement-state", "%s: get_batch changed the step counter or the mask" % label)
                continue
            i = h["i"]
            exp_step = aut.tick(i)
            if exp_step:
                exp_steps_l.append((h.get("leg", 0), i))
            did = h["after"]["J"] - h["before"]["J"]
            rec.count("hook_events", len(h["events"]))
            if did not in (0, 1) or (did == 1) != (len(h["events"]) == 1):
                rec.violation(sig + "/hook-and-counter-disagree", "%s: iteration %d: step counter moved by %d, hook reported %d steps"
                              % (label, i, did, len(h["events"])))
            if did:
                observed_steps.append((h.get("leg", 0), i))
            ca = counts(h["after"])
            for s in streams:
                if ca[s] > totals[s]:
                    rec.violation(sig + "/capacity/active-exceeds-store/" + s, "%s: %d active %s points in a store of %d"
                                  % (label, ca[s], s, totals[s]))
        exp_steps = exp_steps_l
        final = R["final"]
    else:
        rec.count("e2e_schedules")
        if case.get("with_validation"):
            rec.count("e2e_schedules_with_validation_module")
        for h in R["history"]:
            ev = h["events"]
            rec.count("hook_events", len(ev))
            observed_steps += sorted((h["leg"], int(e["i"])) for e in ev)
            for i in range(rarsim.N_ITERS):
                if aut.tick(i):
                    exp_steps_l.append((h["leg"], i))
        exp_steps = exp_steps_l
        final = R["final"]
    if case.get("legs", 1) > 1:
        rec.count("resumed_histories")
    rec.count("steps_observed", len(observed_steps))
    if exp_steps:
        rec.nontrivial(tuple(sorted((k, v) for k, v in case.items() if k not in ("cost",))))
    cap = (not aut.fits())
    if cap:
        rec.count("schedules_hitting_capacity")
    rec.set_sample(case={k: v for k, v in case.items() if k != "cost"}, observed_steps=observed_steps,
                   expected_steps=exp_steps, final_counts=counts(final), expected_counts={s: aut.active(s) for s in streams},
                   final_J=final["J"])
    if observed_steps != exp_steps:
        kind_ = "steps-at-wrong-iterations"
        if exp_steps and observed_steps and case.get("legs", 1) == 1 and case["every"] > 1 and \
                observed_steps == [(l, i + case["every"]) for l, i in exp_steps if i + case["every"] < rarsim.N_ITERS][:len(observed_steps)]:
            kind_ = "first-step-late-by-one-period"
        elif len(observed_steps) > len(exp_steps) and observed_steps[:len(exp_steps)] == exp_steps:
            kind_ = "step-without-room"
        elif len(observed_steps) < len(exp_steps) and observed_steps == exp_steps[:len(observed_steps)]:
            kind_ = "missing-steps"
        rec.violation(sig + "/schedule/" + kind_, "%s: refinement steps at iterations %s, expected %s (start + k*every "
                      "while a full set fits)" % (label, observed_steps, exp_steps))
    if final["J"] != len(observed_steps):
        rec.violation(sig + "/step-counter", "%s: rar_iter_nb = %d after %d observed steps" % (label, final["J"], len(observed_steps)))
    cf = counts(final)
    J = len(observed_steps)
    for s in streams:
        start_n, sel = (case["nt_start"], case["sel_t"]) if s == "times" else (case["n_start"], case["sel_x"])
        exp = start_n + J * sel
        if cf[s] != exp:
            kind_ = "lags-one-step" if (J >= 1 and cf[s] == start_n + (J - 1) * sel) else "value"
            rec.violation(sig + "/mask/active-count/%s/%s" % (s, kind_),
                          "%s: after %d steps %d %s points have non-zero probability, expected n_start + J*selected = %d"
                          % (label, J, cf[s], s, exp))
        if cf[s] > totals[s]:
            rec.violation(sig + "/capacity/active-exceeds-store/" + s, "%s: %d active %s points in a store of %d"
                          % (label, cf[s], s, totals[s]))
