"""C04 - boundary term enforces Dirichlet / outward-normal Neumann conditions per facet.

Observe: terms['boundary_loss'] of the real LossPDEStatio / LossPDENonStatio on batches
produced by the real generators and on hand-built batches.  Oracle: numpy, closed-form
field gradient . outward normal; the facet on which column k lies is *measured* from the
border points and must be xmin, xmax, ymin, ymax in that order.
"""
import itertools

import numpy as np

from .. import fields, gens, guard, nets
from ..core import close

PROPERTY = "C04"
LEVEL = "exploration"
RULE = ("cases = dim (1,2) x stationary / non-stationary (1..5 time points) x batch source (real "
        "get_batch cartesian or paired / hand-built) x condition (Dirichlet on every component slice "
        "of a 1..3-output field, Neumann on one component) x specification form (global, per-facet "
        "dict with every subset of facets set to None) x return shape of f ((), (1,), (k,)) x box x "
        "weight; f is non-zero and different on every facet; a case is non-trivial when the expected "
        "boundary term exceeds 1e-6; distinct = distinct configuration tuples")
ASSUMPTIONS = [
    "outward unit normals: xmin (-1,0), xmax (+1,0), ymin (0,-1), ymax (0,+1); in 1-D xmin -1, xmax +1",
    "boundary weight is a scalar (the statement defines a weighted mean per facet)",
    "d >= 3 borders are not implemented by jinns (NotImplementedError) and are not generated",
    "separable networks: boundary terms on the grid of the border batch against the closed form of an analytic separable field (same builder as C11, judged here against the closed form alone)",
]
TIMEOUT = {"quick": 1500, "thorough": 5400}
MIN_COUNTERS = {"quick": {"boundary_terms_compared": 120, "neumann_cases": 30, "dirichlet_cases": 30, "spinn_separable_terms_vs_closed_form": 40},
                "thorough": {"boundary_terms_compared": 1500, "neumann_cases": 400, "dirichlet_cases": 400, "spinn_separable_terms_vs_closed_form": 500}}

BOXES = [([0.0, 0.0], [1.0, 1.0]), ([-2.0, 0.5], [-0.5, 3.0]), ([1.0, -3.0], [2.5, -1.0])]
FACETS = ["xmin", "xmax", "ymin", "ymax"]


def gen_cases(tier, seed):
    rng = np.random.default_rng(seed + 404)
    q = tier == "quick"
    cases = []
    N = 150 if q else 2000
    for k in range(N):
        d = 1 + k % 2
        kind = ["statio", "nonstatio"][(k // 2) % 2]
        n_out = int(rng.integers(1, 4))
        cond = ["dirichlet", "neumann"][(k // 4) % 2]
        form = ["global", "dict"][(k // 8) % 2]
        nfac = 2 * d
        if form == "dict":
            # every subset of facets (except the empty one) set / None, cycled through
            subsets = [s for s in itertools.product([0, 1], repeat=nfac) if any(s)]
            active = list(subsets[int(rng.integers(len(subsets)))])
            conds = [["dirichlet", "neumann"][int(rng.integers(2))] if a else None for a in active]
        else:
            conds = [cond] * nfac
        comps = []
        for c in conds:
            if c == "neumann" or (c is None and cond == "neumann"):
                j = int(rng.integers(n_out))
                comps.append([j, j + 1])
            else:
                a = int(rng.integers(n_out))
                b = int(rng.integers(a + 1, n_out + 1))
                comps.append([a, b])
        if form == "global":
            comps = [comps[0]] * nfac
        fshape = ["()", "(1,)", "(k,)"][int(rng.integers(3))]
        nt = int(rng.integers(1, 6)) if kind == "nonstatio" else 0
        src = ["gen", "hand"][int(rng.integers(2))]
        cart = bool(rng.integers(2))
        cases.append(dict(kind=kind, d=d, n_out=n_out, form=form, conds=conds, comps=comps,
                          fshape=fshape, nt=nt, nb=int(rng.integers(1, 5)), src=src, cartesian=cart,
                          box=int(rng.integers(len(BOXES))), w=float(np.round(rng.uniform(0.3, 3.0), 3)),
                          int_dim=bool(rng.integers(2)), seed=seed * 100000 + k, cost=1.0, x64=bool(k % 7 != 3)))
    # separable networks: the same boundary terms on a SPINN (grid of the border batch), against the closed form of
    # an analytic separable field (term builder shared with C11)
    for k in range(24 if q else 300):
        term = ["dirichlet_statio", "neumann_statio", "dirichlet_nonstatio", "neumann_nonstatio"][k % 4]
        cases.append(dict(kind="spinn_term", term=term, d=1 + (k // 4) % 2, r=int(rng.integers(1, 4)),
                          m=int(rng.integers(1, 3)), B=int(rng.integers(2, 4)), judge="closed",
                          seed=seed * 1000 + k, cost=3.0, x64=True))
    return cases


def f_coefs(case, facet, k):
    rng = np.random.default_rng([case["seed"], facet, 17])
    D = case["d"] + (1 if case["kind"] == "nonstatio" else 0)
    return rng.uniform(0.5, 2.0, k) * rng.choice([-1, 1], k), rng.uniform(-1, 1, (k, D))


def make_f(case, facet, k, shape):
    """(jax callable in jinns' calling convention, numpy twin on z) ; shape in '()','(1,)','(k,)'"""
    import jax.numpy as jnp

    alpha, beta = f_coefs(case, facet, k)
    if shape in ("()", "(1,)"):
        alpha, beta = alpha[:1], beta[:1]
    A, Bm = jnp.asarray(alpha), jnp.asarray(beta)

    def core(z):
        v = A + Bm @ z
        if shape == "()":
            return v[0]
        return v

    if case["kind"] == "nonstatio":
        fj = lambda t, dx: core(jnp.concatenate([t, dx]))
    else:
        fj = lambda dx: core(dx)

    def fnp(z):
        v = alpha + beta @ np.asarray(z, float)
        return v  # (1,) or (k,) ; broadcast against the k selected components

    return fj, fnp


def normal_of(facet, d):
    if d == 1:
        return np.array([-1.0, 1.0][facet]).reshape(1)
    return np.array([[-1.0, 0.0], [1.0, 0.0], [0.0, -1.0], [0.0, 1.0]][facet])


def measured_facet(pts, mins, maxs):
    """which facet do these spatial points lie on (None if none / ambiguous)"""
    found = []
    d = pts.shape[1]
    for ax in range(d):
        for side, val in ((0, mins[ax]), (1, maxs[ax])):
            if np.all(pts[:, ax] == val):
                found.append(2 * ax + side)
    return found


def run_case(case, rec):
    import jax
    import jax.numpy as jnp
    import jinns
    from jinns.parameters import Params

    if case["kind"] == "spinn_term":
        from . import c11
        from ..core import Rec

        sub = Rec(case)
        try:
            c11.run_case(dict(case, kind="term"), sub)
        finally:
            for k_, v_ in sub.counters.items():
                if k_ != "violations_raw":
                    rec.count("spinn_" + k_, v_)
            for key in sub.keys:
                rec.nontrivial(key)
            rec.sample = rec.sample or sub.sample
            for u_ in sub.unsupported:
                rec.unsupp(u_)
            for v_ in sub.violations:
                rec.violation("spinn/" + v_["sig"], v_["what"], **(v_["witness"] or {}))
        return
    d, kind, n_out = case["d"], case["kind"], case["n_out"]
    D = d + (1 if kind == "nonstatio" else 0)
    mins, maxs = BOXES[case["box"]]
    mins, maxs = mins[:d], maxs[:d]
    nfac = 2 * d
    field = fields.TrigField(case["seed"], D, n_out)
    net = nets.Net(field, "nonstatio_PDE" if kind == "nonstatio" else "statio_PDE")
    u = net.pinn()
    params = Params(nn_params=net.nn_params(), eq_params={"nu": jnp.asarray(0.3)})

    # ------------------------------------------------------------ batch
    rng = np.random.default_rng([case["seed"], 5])
    nb = case["nb"]
    if case["src"] == "gen":
        gd = dict(kind=kind, key=case["seed"] % 9973, n=4, b=2, dim=d, min_pts=mins, max_pts=maxs,
                  nb=4 * (nb + 1) if d == 2 else 2, bb=nb if d == 2 else 1)
        if kind == "nonstatio":
            cart = case["cartesian"]
            bt = case["nt"] if cart else (nb if d == 2 else 2)
            gd.update(nt=bt + 2, bt=bt, tmin=0.0, tmax=1.5, cartesian=cart)
            if not cart:
                gd.update(b=bt, n=bt + 2)
        g = guard.call(gens.make_generator, gd)
        _, batch = guard.call(g.get_batch)
        border = np.asarray(batch.border_batch if kind == "statio" else batch.times_x_border_batch)
    else:
        cols = []
        for f in range(nfac):
            ax, side = f // 2, f % 2
            npts = 1 if d == 1 else nb
            pts = np.stack([rng.uniform(mins[a], maxs[a], npts) for a in range(d)], axis=1)
            pts[:, ax] = [mins, maxs][side][ax]
            cols.append(pts)
        sp = np.stack(cols, axis=-1)  # (npts, d, nfac)
        if kind == "statio":
            border = sp
            batch = jinns.data.PDEStatioBatch(inside_batch=jnp.zeros((2, d)), border_batch=jnp.asarray(border))
        else:
            ts = rng.uniform(0.0, 1.5, case["nt"])
            npts = sp.shape[0]
            tt = np.repeat(ts, npts)[:, None, None] * np.ones((1, 1, nfac))
            if case["seed"] % 2:
                # a hand-built batch need not use the same time stamps on every facet: facet k's border points are
                # the (t, x) rows of ITS slot
                tt = np.repeat(rng.uniform(0.0, 1.5, (case["nt"], nfac)), npts, axis=0)[:, None, :]
                rec.count("hand_batches_with_per_facet_times")
            xx = np.tile(sp, (case["nt"], 1, 1))
            border = np.concatenate([tt, xx], axis=1)
            batch = jinns.data.PDENonStatioBatch(times_x_inside_batch=jnp.zeros((2, 1 + d)),
                                                 times_x_border_batch=jnp.asarray(border))
    if border.shape[-1] != nfac:
        rec.violation("border-batch/facet-count", "border batch has %d facets, expected %d" % (border.shape[-1], nfac))
        return

    # ------------------------------------------------------------ specification
    conds, comps = case["conds"], case["comps"]
    fjs, fnps, shapes_used = [], [], []
    for f in range(nfac):
        k = comps[f][1] - comps[f][0]
        shape = case["fshape"]
        if conds[f] == "neumann" or (conds[f] is None and "neumann" in [c for c in conds if c]):
            shape = "()" if shape == "(k,)" else shape
        fj, fn = make_f(case, f, k, shape)
        shapes_used.append(shape)
        fjs.append(fj)
        fnps.append(fn)
    # every accepted spelling of the two condition types (the constructor validates them case-insensitively)
    sp_d = ["dirichlet", "Dirichlet", "DIRICHLET"][case["seed"] % 3]
    # (the constructor accepts any case-insensitive part of a listed name, so the common short form "neumann" too)
    sp_n = ["von neumann", "Von Neumann", "vonneumann", "VonNeumann", "VON NEUMANN", "neumann", "Neumann"][case["seed"] % 7]
    cname = {"dirichlet": sp_d, "neumann": sp_n, None: None}
    rec.count("condition_spelling_%s" % ("lower" if (sp_d.islower() and sp_n == "von neumann") else "other"))

    def dimspec(c):
        if case["int_dim"] and c[1] - c[0] == 1:
            return int(c[0])
        return jnp.s_[c[0]:c[1]]

    if case["form"] == "global":
        kw = dict(omega_boundary_fun=fjs[0], omega_boundary_condition=cname[conds[0]],
                  omega_boundary_dim=dimspec(comps[0]))
        fnps = [fnps[0]] * nfac
    else:
        names = FACETS[:nfac]
        kw = dict(omega_boundary_fun={n: fjs[i] for i, n in enumerate(names)},
                  omega_boundary_condition={n: cname[conds[i]] for i, n in enumerate(names)},
                  omega_boundary_dim={n: dimspec(comps[i]) for i, n in enumerate(names)})
    LW = jinns.loss.LossWeightsPDEStatio if kind == "statio" else jinns.loss.LossWeightsPDENonStatio
    Loss = jinns.loss.LossPDEStatio if kind == "statio" else jinns.loss.LossPDENonStatio
    loss = guard.call(Loss, u=u, dynamic_loss=None, loss_weights=LW(boundary_loss=case["w"]),
                      params=params, **kw)

    # ------------------------------------------------------------ oracle
    expected = 0.0
    per_facet = {}
    eq = None
    for f in range(nfac):
        if conds[f] is None:
            continue
        M = border[:, :, f]
        sp_pts = M[:, 1:] if kind == "nonstatio" else M
        meas = measured_facet(sp_pts, mins, maxs)
        if f not in meas:
            rec.violation("facet-order/%s" % case["src"],
                          "column %d of the border batch lies on facet(s) %s, expected %s"
                          % (f, [FACETS[m] for m in meas], FACETS[f]), points=sp_pts[:3])
        nvec = normal_of(f, d)
        vals = []
        for row in M:
            z = row
            a, b = comps[f]
            if conds[f] == "dirichlet":
                diff = net.val(z)[a:b] - fnps[f](z)
                vals.append(case["w"] * float(np.sum(diff ** 2)))
            else:
                g = net.grad(z)[a, (1 if kind == "nonstatio" else 0):]
                fv = fnps[f](z)
                vals.append(case["w"] * float((np.dot(g, nvec) - fv[0]) ** 2))
        per_facet[FACETS[f]] = float(np.mean(vals))
        expected += per_facet[FACETS[f]]

    # ------------------------------------------------------------ observe
    def sig_attrs():
        a = []
        n_active = [c for c in conds if c]
        if "neumann" in n_active:
            a.append("neumann")
        else:
            a.append("dirichlet")
        a.append("dim%d" % d)
        a.append(kind)
        return a

    try:
        if case["seed"] % 6 == 0:
            rec.count("eager_evaluations")
            total, terms = guard.call(loss.evaluate, params, batch)
        else:
            total, terms = guard.call(jax.jit(lambda l, p, b: l.evaluate(p, b)), loss, params, batch)
    except guard.Crash as c:
        at = sig_attrs()
        ntp = len(np.unique(border[:, 0, 0])) if kind == "nonstatio" else 0
        sig = "/".join(at + ["crash", "nt>1" if ntp > 1 else "nt<=1", c.etype])
        rec.violation(sig, "boundary term crashed: %s" % c, conds=conds, comps=comps, fshape=case["fshape"],
                      border_shape=list(border.shape))
        rec.count("neumann_cases" if "neumann" in at else "dirichlet_cases")
        return
    got = float(terms["boundary_loss"])
    rec.count("boundary_terms_compared")
    rec.count("neumann_cases" if "neumann" in [c for c in conds if c] else "dirichlet_cases")
    rec.count("form_%s" % case["form"])
    rec.count("fshape_%s" % case["fshape"])
    rec.count("src_%s" % case["src"])
    if expected > 1e-6:
        rec.nontrivial((kind, d, n_out, case["form"], tuple(str(c) for c in conds),
                        tuple(map(tuple, comps)), case["fshape"], case["nt"], nb, case["src"], case["box"]))
    rec.set_sample(kind=kind, d=d, conds=conds, comps=comps, fshape=case["fshape"], form=case["form"],
                   border_shape=list(border.shape), got=got, expected=expected, per_facet=per_facet)
    if not close(got, expected, 1e-8, 1e-10):
        # mechanism attribution from the configuration attributes only
        at = sig_attrs()
        npts = border.shape[0]
        extra = []
        if "neumann" in at:
            # which simple alternative explains the value?
            alt_in = 0.0
            alt_sum = 0.0
            for f in range(nfac):
                if conds[f] is None:
                    continue
                M = border[:, :, f]
                a, b = comps[f]
                vin, vs = [], []
                for row in M:
                    if conds[f] == "neumann":
                        g = net.grad(row)[a, (1 if kind == "nonstatio" else 0):]
                        fv = fnps[f](row)
                        vin.append(case["w"] * float((np.dot(g, -normal_of(f, d)) - fv[0]) ** 2))
                        vs.append(case["w"] * float((np.dot(g, normal_of(f, d)) - fv[0]) ** 2))
                    else:
                        diff = net.val(row)[a:b] - fnps[f](row)
                        vin.append(case["w"] * float(np.sum(diff ** 2)))
                        vs.append(vin[-1])
                alt_in += float(np.mean(vin))
                alt_sum += float(np.sum(vs)) if conds[f] == "neumann" else float(np.mean(vs))
            if close(got, alt_in, 1e-8, 1e-10):
                extra.append("normal-orientation-inward")
            elif close(got, alt_sum, 1e-8, 1e-10):
                nsh = sorted({shapes_used[0 if case["form"] == "global" else f] for f in range(nfac)
                              if conds[f] == "neumann"})
                extra.append("sum-instead-of-mean/f-returns-%s" % "".join(nsh))
        sig = "/".join(at + (extra or ["value"]))
        rec.violation(sig, "boundary term %r, expected %r (per facet %s); conds=%s comps=%s f-shape=%s "
                      "border %s" % (got, expected, per_facet, conds, comps, case["fshape"], border.shape),
                      got=got, expected=expected, per_facet=per_facet, border=border)
    # unconfigured dynamic / norm / observation terms must be exactly zero, total = sum
    s = sum(float(v) for v in terms.values())
    if not close(float(total), s, 1e-12, 1e-14):
        rec.violation("total-not-sum", "total %r != sum of terms %r" % (float(total), s))
