#!/bin/sh
# Installs the two third-party packages the checks need (icontract: contracts on the
# real jinns methods; jsonschema: validation of our own evidence files) from the offline
# wheelhouse into /verif/.deps (git-ignored). Idempotent, no network.
set -e
cd "$(dirname "$0")"
if [ ! -f .deps/.ok ]; then
  rm -rf .deps
  PIP_NO_INDEX=1 /venv/bin/pip install --quiet --no-index --find-links /opt/veriftools/wheels \
      --target .deps icontract jsonschema >/dev/null 2>&1 || \
  PIP_NO_INDEX=1 /venv/bin/pip install --no-index --find-links /opt/veriftools/wheels \
      --target .deps icontract jsonschema
  touch .deps/.ok
fi
/venv/bin/python -c "import sys; sys.path.insert(0,'.deps'); import icontract, jsonschema; print('deps ok', icontract.__version__)"
